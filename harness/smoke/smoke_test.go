package smoke

import (
	"fmt"
	"testing"

	"github.com/cuteLittleDevil/go-jt808/service"
	"verif/harness/ref"
	"verif/harness/vnet"
	"verif/harness/vs"
)

type obs struct{ writes [][]byte }

func mk() (func(), any) {
	o := &obs{}
	vnet.Reset()
	body := func() {
		n := vs.ThreadCount()
		srv := service.New(service.WithHostPorts("127.0.0.1:808"))
		vs.MarkDaemonFrom(n)
		vs.GoNamed("srv.Run", true, srv.Run)
		p := vnet.Dial("127.0.0.1:808")
		hb := ref.Encode(ref.TermHeader(0x0002, false, "13800138000", 7), nil)
		p.Send(hb)
		p.Send(hb)
		w := p.Expect(2)
		for _, x := range w {
			o.writes = append(o.writes, x.Data)
		}
		p.Close()
	}
	return body, o
}

func TestSmoke(t *testing.T) {
	x := &vs.Explorer{Name: "smoke", Bound: 2, Make: mk, KeepKeys: true,
		Check: func(res *vs.Result, user any) []vs.Violation {
			o := user.(*obs)
			if res.Panic != nil {
				return []vs.Violation{{Sig: "panic:" + res.Panic.Value, Msg: res.Panic.Stack}}
			}
			for _, b := range res.Blocked {
				if !b.Daemon {
					return []vs.Violation{{Sig: "blocked:" + b.Thread + ":" + b.Kind, Msg: fmt.Sprintf("%+v", b)}}
				}
			}
			if len(o.writes) != 2 {
				return []vs.Violation{{Sig: "writes", Msg: fmt.Sprint(len(o.writes))}}
			}
			return nil
		}}
	x.Explore()
	t.Logf("exec=%d trans=%d outcomes=%d states=%d bycost=%v maxpoints=%d nondet=%q", x.Stats.Executions, x.Stats.Transitions,
		len(x.Stats.Outcomes), len(x.Stats.States), x.Stats.ByCost, x.Stats.MaxPoints, x.Stats.Nondet)
	for _, f := range x.Found {
		t.Logf("FOUND %s cost=%d choices=%v\n%s", f.Sig, f.Cost, f.Choices, f.Msg)
	}
	r, u, _ := x.RunOnce(nil, nil, true)
	for _, s := range r.Trace {
		t.Logf("%d %s %d", s.Thread, s.Kind, s.Obj)
	}
	t.Logf("%x", u.(*obs).writes)
}
