//go:build race

package vs

import (
	"runtime"
	"unsafe"
)

const RaceEnabled = true

//go:norace
func raceDisable() { runtime.RaceDisable() }

//go:norace
func raceEnable() { runtime.RaceEnable() }

//go:norace
func raceAcquireAddr(p *byte) { runtime.RaceAcquire(unsafe.Pointer(p)) }

//go:norace
func raceReleaseAddr(p *byte) { runtime.RaceRelease(unsafe.Pointer(p)) }

//go:norace
func raceReleaseMergeAddr(p *byte) { runtime.RaceReleaseMerge(unsafe.Pointer(p)) }

//go:norace
func raceReadAddr(p *byte) { runtime.RaceRead(unsafe.Pointer(p)) }

//go:norace
func raceWriteAddr(p *byte) { runtime.RaceWrite(unsafe.Pointer(p)) }

//go:norace
func RaceErrors() int { return runtime.RaceErrors() }

// exported for the other shim packages
//
//go:norace
func RaceAcquire(p *byte) { runtime.RaceAcquire(unsafe.Pointer(p)) }

//go:norace
func RaceRelease(p *byte) { runtime.RaceRelease(unsafe.Pointer(p)) }

//go:norace
func RaceReleaseMerge(p *byte) { runtime.RaceReleaseMerge(unsafe.Pointer(p)) }

// RaceReadRange / RaceWriteRange annotate an access of the code under test to
// its own memory (socket buffers) performed on its behalf by a shim.
//
//go:norace
func RaceReadRange(b []byte) {
	if len(b) > 0 {
		runtime.RaceReadRange(unsafe.Pointer(&b[0]), len(b))
	}
}

//go:norace
func RaceWriteRange(b []byte) {
	if len(b) > 0 {
		runtime.RaceWriteRange(unsafe.Pointer(&b[0]), len(b))
	}
}
