package vs

import (
	"fmt"
	"os"
	"time"
)

// PointRec is one recorded choice point (only points with >1 option).
type PointRec struct {
	N      int
	Chosen int
	Cost   int8
	Kind   string
	Costs  []int8
	Key    uint64 // state key at the choice (0 unless the execution keeps keys)
	Digest uint64
	Held   bool // inside the preamble of a HoldBranching execution: not branched on
}

type replayChooser struct {
	prefix   []int
	expect   []PointRec // what the parent saw at positions < len(prefix)
	points   []PointRec
	diverged string
}

//go:norace
func (r *replayChooser) Choose(kind string, costs []int8) int {
	i := len(r.points)
	c := 0
	if i < len(r.prefix) {
		c = r.prefix[i]
		if i < len(r.expect) && (r.expect[i].N != len(costs) || r.expect[i].Kind != kind) && r.diverged == "" {
			r.diverged = fmt.Sprintf("point %d: expected %s/%d options, got %s/%d", i, r.expect[i].Kind, r.expect[i].N, kind, len(costs))
		}
		if c >= len(costs) {
			if r.diverged == "" {
				r.diverged = fmt.Sprintf("point %d: choice %d out of range %d", i, c, len(costs))
			}
			c = 0
		}
	}
	cc := make([]int8, len(costs))
	for k := range costs { // no copy(): runtime.slicecopy carries race hooks
		cc[k] = costs[k]
	}
	key, dg := PointKey()
	r.points = append(r.points, PointRec{N: len(costs), Chosen: c, Cost: costs[c], Kind: kind, Costs: cc, Key: key ^ hashStr(kind), Digest: dg, Held: Held()})
	return c
}

// Violation reported by a scenario oracle for one execution.
type Violation struct {
	Sig string // stable signature (known-findings matching, dedup)
	Msg string
}

// Found is a violation together with its replay artefact.
type Found struct {
	Violation
	Choices  []int
	Cost     int
	Scenario string
}

type Stats struct {
	Executions   int64
	Transitions  int64
	ByCost       [8]int64
	Outcomes     map[uint64]struct{}
	States       map[uint64]struct{}
	StatesCapped bool
	Nontrivial   int64 // executions with >=1 deviation
	MaxPoints    int
	Truncated    bool // deadline hit: not exhaustive
	Nondet       string
	Pruned       int64
	Visited      int // state cache size (unbounded search)
}

type Explorer struct {
	Name     string
	Bound    int
	Make     func() (body func(), user any)
	Check    func(res *Result, user any) []Violation
	Shard    int
	NShards  int
	ShardLvl int // depth at which subtrees are distributed (1 or 2)
	Deadline time.Time
	Horizon  int
	MaxFound int
	KeepKeys bool
	MaxState int
	// Unbounded: explore EVERY thread choice at every scheduling point (no preemption bound; environment choices -
	// early timers, select cases, failing writes - stay bounded by Bound, see altCost), with a cache of happens-before state keys:
	// a choice point whose state key was expanded before is not expanded again (every state and every transition of
	// the scenario is still executed at least once, not every path). Sound for oracles that judge states and
	// transitions (panics, stranded threads, per-thread results), not for oracles over the global order of events.
	Unbounded bool
	// HoldBranching: see Config.HoldBranching.
	HoldBranching bool
	// Digest: harness state summary compared when a state key is met again (see Config.Digest).
	Digest func(user any) uint64
	// MaxVisited caps the state cache (0: 4,000,000); when it is reached the exploration stops as truncated.
	MaxVisited int
	Prune      bool
	// NoConfirm skips the 5-fold replay of a violation (race reports are
	// de-duplicated by the race runtime and cannot fail twice).
	NoConfirm bool

	Stats   Stats
	Found   []Found
	seenSig map[string]bool
	counter int
	visited map[uint64]cacheEntry
	dbgDone bool
}

type cacheEntry struct {
	digest uint64
	rem    int8 // deviation budget that was left when the state was expanded
}

var debugLong = os.Getenv("VS_TRACE_LONG")

// altCost is what taking alternative alt at point p adds to the deviation count. Bounded search: every non-default
// choice costs 1. Unbounded search: switching to another runnable thread is free (all interleavings are explored);
// environment choices - a timer firing early or out of order, a select case other than the first ready one, a failing
// write, a map order - still cost 1 each against Bound (they are what makes spin loops and periodic timers infinite).
func (x *Explorer) altCost(p PointRec, alt int) int {
	c := int(p.Costs[alt])
	if !x.Unbounded {
		if c > 1 {
			c = 1
		}
		return c
	}
	if p.Kind == "sched" {
		if c >= 2 {
			return 1
		}
		return 0
	}
	if c > 1 {
		c = 1
	}
	return c
}

func (x *Explorer) RunOnce(prefix []int, expect []PointRec, keepTrace bool) (*Result, any, *replayChooser) {
	body, user := x.Make()
	ch := &replayChooser{prefix: prefix, expect: expect}
	cfg := Config{Horizon: x.Horizon, KeepTrace: keepTrace, KeepKeys: x.KeepKeys || x.Prune || x.Unbounded, User: user, HoldBranching: x.HoldBranching}
	if x.Digest != nil && x.Unbounded {
		cfg.Digest = func() uint64 { return x.Digest(user) }
	}
	res := Run(body, ch, cfg)
	return res, user, ch
}

func (x *Explorer) Explore() {
	if x.NShards == 0 {
		x.NShards = 1
	}
	if x.ShardLvl == 0 {
		x.ShardLvl = 1
	}
	if x.MaxFound == 0 {
		x.MaxFound = 8
	}
	if x.MaxState == 0 {
		x.MaxState = 2000000
	}
	x.Stats.Outcomes = map[uint64]struct{}{}
	x.Stats.States = map[uint64]struct{}{}
	x.seenSig = map[string]bool{}
	x.visited = map[uint64]cacheEntry{}
	if x.MaxVisited == 0 {
		x.MaxVisited = 4000000
	}
	x.explore(nil, 0, nil, 0, x.Shard == 0)
}

func (x *Explorer) stop() bool {
	if x.Stats.Nondet != "" || len(x.Found) >= x.MaxFound {
		return true
	}
	if !x.Deadline.IsZero() && time.Now().After(x.Deadline) {
		x.Stats.Truncated = true
		return true
	}
	return false
}

// mine tells whether this shard owns (counts and checks) the node.
func (x *Explorer) explore(prefix []int, cost int, expect []PointRec, depth int, mine bool) {
	if x.stop() {
		return
	}
	res, user, ch := x.RunOnce(prefix, expect, false)
	if ch.diverged != "" {
		x.Stats.Nondet = fmt.Sprintf("%s: replay of %v diverged: %s", x.Name, prefix, ch.diverged)
		return
	}
	if debugLong != "" && res.Steps > 1500 && !x.dbgDone {
		x.dbgDone = true
		r2, _, _ := x.RunOnce(prefix, expect, true)
		hist := map[string]int{}
		for _, st := range r2.Trace {
			hist[fmt.Sprintf("t%d:%s/%d", st.Thread, st.Kind, st.Obj)]++
		}
		if f, err := os.OpenFile(debugLong, os.O_APPEND|os.O_CREATE|os.O_WRONLY, 0o644); err == nil {
			fmt.Fprintf(f, "LONG %s steps=%d prefix=%v\n hist=%v\n", x.Name, r2.Steps, prefix, hist)
			f.Close()
		}
	}
	if mine {
		x.Stats.Executions++
		x.Stats.Transitions += int64(res.Steps)
		if cost < len(x.Stats.ByCost) {
			x.Stats.ByCost[cost]++
		}
		if cost > 0 {
			x.Stats.Nontrivial++
		}
		if len(ch.points) > x.Stats.MaxPoints {
			x.Stats.MaxPoints = len(ch.points)
		}
		x.Stats.Outcomes[res.TraceHash] = struct{}{}
		if x.KeepKeys || x.Prune {
			for _, k := range res.StateKeys {
				if len(x.Stats.States) >= x.MaxState {
					x.Stats.StatesCapped = true
					break
				}
				x.Stats.States[k] = struct{}{}
			}
		}
		for _, v := range x.Check(res, user) {
			if x.seenSig[v.Sig] {
				continue
			}
			x.seenSig[v.Sig] = true
			choices := make([]int, len(ch.points))
			for i, p := range ch.points {
				choices[i] = p.Chosen
			}
			// confirm determinism: the same choices must fail the same way 5 times
			for k := 0; k < 5 && !x.NoConfirm; k++ {
				r2, u2, c2 := x.RunOnce(choices, ch.points, false)
				same := false
				for _, v2 := range x.Check(r2, u2) {
					if v2.Sig == v.Sig {
						same = true
					}
				}
				if !same || c2.diverged != "" {
					x.Stats.Nondet = fmt.Sprintf("%s: violation %q did not reproduce on replay %d of %v (%s)", x.Name, v.Sig, k, choices, c2.diverged)
					return
				}
			}
			x.Found = append(x.Found, Found{Violation: v, Choices: choices, Cost: cost, Scenario: x.Name})
		}
	}
	pts := ch.points
	for i := len(prefix); i < len(pts); i++ {
		p := pts[i]
		if p.Held {
			continue
		}
		if x.Unbounded {
			rem := int8(x.Bound - cost)
			if e, seen := x.visited[p.Key]; seen {
				if e.digest != p.Digest {
					x.Stats.Nondet = fmt.Sprintf("%s: state key %016x reached twice with different harness digests (%016x / %016x) at point %d of %v: the key is too coarse", x.Name, p.Key, e.digest, p.Digest, i, prefix)
					return
				}
				if e.rem >= rem {
					x.Stats.Pruned++
					break // this state was expanded from another path with at least this budget: its successors are explored there
				}
			} else if len(x.visited) >= x.MaxVisited {
				x.Stats.Truncated = true
				return
			}
			x.visited[p.Key] = cacheEntry{p.Digest, rem}
			x.Stats.Visited = len(x.visited)
		}
		for alt := 1; alt < p.N; alt++ {
			c := cost + x.altCost(p, alt)
			if c > x.Bound {
				continue
			}
			childMine := mine
			if depth+1 == x.ShardLvl {
				childMine = x.counter%x.NShards == x.Shard
				x.counter++
			} else if depth+1 < x.ShardLvl {
				childMine = x.Shard == 0
			}
			if depth+1 >= x.ShardLvl && !childMine {
				continue
			}
			np := make([]int, i+1)
			for j := 0; j < i; j++ {
				np[j] = pts[j].Chosen
			}
			np[i] = alt
			x.explore(np, c, pts[:i+1], depth+1, childMine)
			if x.stop() {
				return
			}
		}
	}
}
