package vs

import (
	"fmt"
	"sort"
)

// State-cache self-test: for each program the set of observable results found by the cached unbounded search must
// equal the set found by enumerating EVERY schedule without any cache. The programs are chosen so that the result
// depends on the order of accesses to one object, on which select case fires, on timers against messages, on locks.

// obs logs what thread `who` has observed so far; the self-test's digest is the per-thread logs (their interleaving
// in the slice is not part of the state).
//
//go:norace
func obs(out *[]string, who string, v ...any) { *out = append(*out, who+"\x00"+fmt.Sprint(v...)) }

//go:norace
func obsDigest(out []string) uint64 {
	per := map[string]uint64{}
	for _, l := range out {
		who := l
		for i := 0; i < len(l); i++ {
			if l[i] == 0 {
				who = l[:i]
				break
			}
		}
		per[who] = per[who]*1099511628211 + hashStr(l)
	}
	var d uint64
	for who, h := range per {
		d += (h ^ hashStr(who)) * 0x9e3779b97f4a7c15
	}
	return d
}

func cacheProgs() []prog {
	return []prog{
		{name: "two-producers-order", body: func(out *[]string) {
			c := NewChan[int]("c", 1)
			GoNamed("p1", false, func() { c.Send(1) })
			GoNamed("p2", false, func() { c.Send(2) })
			a := c.Recv()
			obs(out, "main", a)
			b := c.Recv()
			obs(out, "main", b)
		}},
		{name: "select-other-case-order", body: func(out *[]string) {
			// the consumer's select completes on its SECOND case: the order of the two senders on that channel matters
			a, b := NewChan[int]("a"), NewChan[int]("b", 2)
			GoNamed("p1", false, func() { b.Send(1) })
			GoNamed("p2", false, func() { b.Send(2) })
			var got []int
			for i := 0; i < 2; i++ {
				ka, kb := RecvCase(a), RecvCase(b)
				if Select("s", false, ka, kb) == 1 {
					got = append(got, kb.Val)
					obs(out, "main", kb.Val)
				}
			}
		}},
		{name: "select-both-ready", body: func(out *[]string) {
			a, b := NewChan[int]("a", 1), NewChan[int]("b", 1)
			a.Send(1)
			b.Send(2)
			ka, kb := RecvCase(a), RecvCase(b)
			obs(out, "main", Select("s", false, ka, kb))
		}},
		{name: "timer-vs-message", body: func(out *[]string) {
			c := NewChan[int]("c")
			GoNamed("p", false, func() { SleepNanos(10, "p"); sc := SendCase(c, 1); Select("ps", true, sc) })
			t := NewChan[int]("t", 1)
			GoNamed("timer", true, func() { SleepNanos(10, "t"); t.Send(0) })
			kc, kt := RecvCase(c), RecvCase(t)
			switch Select("s", false, kc, kt) {
			case 0:
				obs(out, "main", "msg")
			case 1:
				obs(out, "main", "timeout@", ClockNanos())
			}
		}},
		{name: "clock-read-between-timers", body: func(out *[]string) {
			// the result is the clock value a thread happens to read: same events, different instants
			d := NewChan[int64]("d", 1)
			GoNamed("sleeper", false, func() { SleepNanos(50, "s") })
			own := NewObj() // the reader's step shares no object with the timer: only the clock tells the two orders apart
			GoNamed("reader", false, func() { Yield("y", own); t := ClockNanos(); obs(out, "reader", t); d.Send(t) })
			obs(out, "main", d.Recv())
			c := NewChan[int]("c", 1) // further choice points, so that the two histories meet in the cache
			GoNamed("q1", false, func() { c.Send(1) })
			GoNamed("q2", false, func() { c.Send(2) })
			c.Recv()
			c.Recv()
		}},
		{name: "data-choice-then-more", body: func(out *[]string) {
			// a pure data choice (like a failing write or a map order) followed by further choice points
			obs(out, "main", Choose("data", []int8{0, 1}))
			c := NewChan[int]("c", 1)
			GoNamed("p1", false, func() { c.Send(1) })
			GoNamed("p2", false, func() { c.Send(2) })
			c.Recv()
			c.Recv()
		}},
		{name: "select-second-case-frees-buffer", body: func(out *[]string) {
			// main's select completes on its second case and frees b's only slot; whether p's non-blocking send
			// succeeds depends on the order of those two steps, which only b's version records
			a, b := NewChan[int]("a"), NewChan[int]("b", 1)
			b.Send(0)
			done := NewChan[struct{}]("done", 1)
			GoNamed("p", false, func() {
				sc := SendCase(b, 7)
				obs(out, "p", Select("try", true, sc))
				done.Send(struct{}{})
			})
			ka, kb := RecvCase(a), RecvCase(b)
			Select("s", false, ka, kb)
			done.Recv()
			GoNamed("q1", false, func() { a.Send(1) })
			GoNamed("q2", false, func() { a.Send(2) })
			a.Recv()
			a.Recv()
		}},
		{name: "check-then-act", body: func(out *[]string) {
			n := 0
			turn := NewChan[struct{}]("turn", 1)
			done := NewChan[struct{}]("done", 2)
			w := func() {
				turn.Send(struct{}{})
				v := n
				obs(out, Self().Name, v)
				turn.Recv()
				Yield("think", 0)
				turn.Send(struct{}{})
				n = v + 1
				turn.Recv()
				done.Send(struct{}{})
			}
			GoNamed("w1", false, w)
			GoNamed("w2", false, w)
			done.Recv()
			done.Recv()
			obs(out, "main", n)
		}},
		{name: "three-stage-pipeline", body: func(out *[]string) {
			a, b := NewChan[int]("a", 1), NewChan[int]("b", 1)
			GoNamed("s1", false, func() {
				for i := 1; i <= 2; i++ {
					a.Send(i)
				}
				a.Close()
			})
			GoNamed("s2", false, func() {
				for {
					v, ok := a.Recv2()
					if !ok {
						b.Close()
						return
					}
					b.Send(v * 10)
				}
			})
			s := 0
			for {
				v, ok := b.Recv2()
				if !ok {
					break
				}
				s += v
			}
			obs(out, "main", s)
		}},
	}
}

// CacheSelfTest compares, per program, the result sets of the exhaustive search without cache and of the cached
// unbounded search.
func CacheSelfTest() (report []string, err error) {
	ps := append(cacheProgs(), progs()...)
	for _, p := range ps {
		p := p
		if p.racy {
			continue
		}
		run := func(unbounded bool) (map[string]bool, *Explorer) {
			outs := map[string]bool{}
			x := &Explorer{Name: p.name, Bound: 100, Unbounded: unbounded, NoConfirm: true,
				Digest: func(user any) uint64 { return obsDigest(*user.(*[]string)) },
				Make: func() (func(), any) {
					var out []string
					return func() { p.body(&out) }, &out
				},
				Check: func(res *Result, user any) []Violation {
					o := fmt.Sprintf("%016x", obsDigest(*user.(*[]string)))
					if res.Panic != nil {
						o = "panic:" + res.Panic.Value
					}
					for _, b := range res.Blocked {
						if !b.Daemon {
							o += " blocked:" + b.Thread
						}
					}
					outs[o] = true
					return nil
				}}
			x.Explore()
			return outs, x
		}
		full, xf := run(false)
		cached, xc := run(true)
		if xf.Stats.Nondet != "" || xc.Stats.Nondet != "" {
			return report, fmt.Errorf("%s: %s %s", p.name, xf.Stats.Nondet, xc.Stats.Nondet)
		}
		if xf.Stats.Truncated || xc.Stats.Truncated {
			return report, fmt.Errorf("%s: truncated", p.name)
		}
		if fmt.Sprint(keysOf(full)) != fmt.Sprint(keysOf(cached)) {
			return report, fmt.Errorf("%s: every-schedule search finds results %v, cached search finds %v", p.name, keysOf(full), keysOf(cached))
		}
		report = append(report, fmt.Sprintf("%s: results=%d every-schedule executions=%d cached executions=%d states=%d", p.name, len(full), xf.Stats.Executions, xc.Stats.Executions, len(xc.visited)))
	}
	return report, nil
}

func keysOf(m map[string]bool) []string {
	var k []string
	for s := range m {
		k = append(k, s)
	}
	sort.Strings(k)
	return k
}
