package vs

import (
	"cmp"
	"fmt"
	"reflect"
	"sort"
)

// MapKeys returns the keys of m in the order the rewritten `for range m`
// visits them: sorted by default, other orders are explorer choices
// (all permutations for <= 3 keys, rotations and reversal beyond).
//
//go:norace
func MapKeys[K comparable, V any](m map[K]V, site string) []K {
	keys := make([]K, 0, len(m))
	for k := range m {
		keys = append(keys, k)
	}
	sortKeys(keys)
	n := len(keys)
	if n < 2 || cur == nil {
		return keys
	}
	var nopt int
	if n <= 3 {
		nopt = 1
		for i := 2; i <= n; i++ {
			nopt *= i
		}
	} else {
		nopt = n + 1 // rotations + reversal
	}
	costs := make([]int8, nopt)
	for i := 1; i < nopt; i++ {
		costs[i] = 1
	}
	c := Choose("maporder", costs)
	if c == 0 {
		return keys
	}
	if n <= 3 {
		return nthPerm(keys, c)
	}
	if c == n {
		for i, j := 0, n-1; i < j; i, j = i+1, j-1 {
			keys[i], keys[j] = keys[j], keys[i]
		}
		return keys
	}
	out := make([]K, 0, n)
	for i := 0; i < n; i++ {
		out = append(out, keys[(c+i)%n])
	}
	return out
}

//go:norace
func nthPerm[K any](keys []K, idx int) []K {
	pool := make([]K, 0, len(keys))
	for _, k := range keys {
		pool = append(pool, k)
	}
	n := len(pool)
	fact := 1
	for i := 2; i < n; i++ {
		fact *= i
	}
	out := make([]K, 0, n)
	for i := n - 1; i >= 0; i-- {
		q := idx / fact
		idx %= fact
		out = append(out, pool[q])
		for j := q; j+1 < len(pool); j++ {
			pool[j] = pool[j+1]
		}
		pool = pool[:len(pool)-1]
		if i > 0 {
			fact /= max(i, 1)
		}
	}
	return out
}

//go:norace
func sortKeys[K comparable](keys []K) {
	if len(keys) < 2 {
		return
	}
	switch ks := any(keys).(type) {
	case []string:
		sort.Strings(ks)
		return
	case []int:
		sort.Ints(ks)
		return
	}
	rv := reflect.ValueOf(keys[0])
	switch rv.Kind() {
	case reflect.Int, reflect.Int8, reflect.Int16, reflect.Int32, reflect.Int64:
		sort.SliceStable(keys, func(i, j int) bool { return reflect.ValueOf(keys[i]).Int() < reflect.ValueOf(keys[j]).Int() })
	case reflect.Uint, reflect.Uint8, reflect.Uint16, reflect.Uint32, reflect.Uint64, reflect.Uintptr:
		sort.SliceStable(keys, func(i, j int) bool { return reflect.ValueOf(keys[i]).Uint() < reflect.ValueOf(keys[j]).Uint() })
	case reflect.String:
		sort.SliceStable(keys, func(i, j int) bool { return reflect.ValueOf(keys[i]).String() < reflect.ValueOf(keys[j]).String() })
	default:
		sort.SliceStable(keys, func(i, j int) bool {
			return cmp.Compare(fmt.Sprintf("%#v", keys[i]), fmt.Sprintf("%#v", keys[j])) < 0
		})
	}
}
