package vs

import (
	"fmt"
)

// Idiom corpus: race-free message passing must stay silent in every schedule
// (under -race), seeded races must be reported; without -race the same
// programs check the channel semantics of the shims under all schedules.

type prog struct {
	name  string
	racy  bool
	body  func(out *[]string)
	wants map[string]bool // admissible outputs (joined), nil = any
}

func progs() []prog {
	return []prog{
		{name: "unbuffered-handoff", body: func(out *[]string) {
			c := NewChan[*int]("c")
			x := new(int)
			GoNamed("p", false, func() { *x = 42; c.Send(x) })
			v := c.Recv()
			*out = append(*out, fmt.Sprint(*v))
		}, wants: map[string]bool{"42": true}},
		{name: "unbuffered-recv-before-send-completes", body: func(out *[]string) {
			// receive happens-before completion of the send: the sender may touch data after Send returns
			c := NewChan[int]("c")
			shared := new(int)
			GoNamed("p", false, func() { c.Send(1); *shared = 2 })
			*shared = 1
			c.Recv()
			*out = append(*out, "ok")
		}},
		{name: "buffered-ownership", body: func(out *[]string) {
			c := NewChan[*int]("c", 2)
			done := NewChan[struct{}]("d")
			GoNamed("cons", false, func() {
				s := 0
				for i := 0; i < 3; i++ {
					p := c.Recv()
					s += *p
				}
				*out = append(*out, fmt.Sprint(s))
				done.Close()
			})
			for i := 1; i <= 3; i++ {
				p := new(int)
				*p = i
				c.Send(p)
			}
			done.Recv()
		}, wants: map[string]bool{"6": true}},
		{name: "close-publishes", body: func(out *[]string) {
			c := NewChan[struct{}]("c")
			x := 0
			GoNamed("p", false, func() { x = 7; c.Close() })
			c.Recv()
			*out = append(*out, fmt.Sprint(x))
		}, wants: map[string]bool{"7": true}},
		{name: "select-two-producers", body: func(out *[]string) {
			a, b := NewChan[int]("a", 1), NewChan[int]("b", 1)
			GoNamed("pa", false, func() { a.Send(1) })
			GoNamed("pb", false, func() { b.Send(2) })
			s := 0
			for i := 0; i < 2; i++ {
				ka, kb := RecvCase(a), RecvCase(b)
				switch Select("s", false, ka, kb) {
				case 0:
					s += ka.Val
				case 1:
					s += kb.Val
				}
			}
			*out = append(*out, fmt.Sprint(s))
		}, wants: map[string]bool{"3": true}},
		{name: "select-default", body: func(out *[]string) {
			a := NewChan[int]("a")
			k := RecvCase(a)
			if Select("s", true, k) == -1 {
				*out = append(*out, "default")
			}
		}, wants: map[string]bool{"default": true}},
		{name: "seeded-race-plain", racy: true, body: func(out *[]string) {
			x := 0
			d := NewChan[struct{}]("d", 1)
			GoNamed("p", false, func() { x = 1; d.Send(struct{}{}) })
			x = 2
			d.Recv()
			_ = x
		}},
		{name: "seeded-race-after-buffered-send", racy: true, body: func(out *[]string) {
			// a buffered send does not wait for the receiver: touching the data afterwards races
			c := NewChan[*int]("c", 1)
			d := NewChan[struct{}]("d")
			p := new(int)
			GoNamed("cons", false, func() { q := c.Recv(); *q = 5; d.Close() })
			c.Send(p)
			*p = 6
			d.Recv()
		}},
	}
}

// SelfTest runs the idiom corpus under all schedules (deviation bound 3). In
// the -race build race-free idioms must stay silent and seeded races must be
// reported; in both builds outputs must be the admissible ones.
func SelfTest() (report []string, err error) {
	for _, p := range progs() {
		p := p
		outs := map[string]int{}
		execs := 0
		x := &Explorer{Name: p.name, Bound: 3,
			Make: func() (func(), any) {
				var out []string
				return func() { p.body(&out) }, &out
			},
			Check: func(res *Result, user any) []Violation {
				execs++
				if res.Panic != nil {
					return []Violation{{Sig: "panic", Msg: res.Panic.Value + "\n" + res.Panic.Stack}}
				}
				for _, b := range res.Blocked {
					return []Violation{{Sig: "blocked", Msg: fmt.Sprintf("%+v", b)}}
				}
				o := fmt.Sprint(*user.(*[]string))
				outs[o]++
				return nil
			}}
		before := RaceErrors()
		x.Explore()
		races := RaceErrors() - before
		if x.Stats.Nondet != "" {
			return report, fmt.Errorf("%s: %s", p.name, x.Stats.Nondet)
		}
		for _, f := range x.Found {
			return report, fmt.Errorf("%s: %s %s", p.name, f.Sig, f.Msg)
		}
		for o := range outs {
			if p.wants != nil && !p.wants[o[1:len(o)-1]] {
				return report, fmt.Errorf("%s: unexpected output %s", p.name, o)
			}
		}
		if RaceEnabled {
			if p.racy && races == 0 {
				return report, fmt.Errorf("%s: seeded race not reported in %d executions", p.name, execs)
			}
			if !p.racy && races != 0 {
				return report, fmt.Errorf("%s: %d race reports on a race-free idiom (%d executions)", p.name, races, execs)
			}
		}
		report = append(report, fmt.Sprintf("%s executions=%d races=%d", p.name, execs, races))
	}
	return report, nil
}
