package vs

import (
	"fmt"
	"os"
	"strings"
	"testing"
)

func rssMB() string {
	b, _ := os.ReadFile("/proc/self/status")
	for _, l := range strings.Split(string(b), "\n") {
		if strings.HasPrefix(l, "VmRSS:") {
			return strings.TrimSpace(l[6:])
		}
	}
	return "?"
}

// TestLeak (VS_LEAKTEST=<program>): memory per execution, to be run with and without -race.
func TestLeak(t *testing.T) {
	if os.Getenv("VS_LEAKTEST") == "" {
		t.Skip()
	}
	var p prog
	for _, q := range cacheProgs() {
		if q.name == os.Getenv("VS_LEAKTEST") {
			p = q
		}
	}
	n := 0
	for round := 0; round < 40; round++ {
		x := &Explorer{Name: p.name, Bound: 3, NoConfirm: true,
			Make: func() (func(), any) {
				var out []string
				return func() { p.body(&out) }, &out
			},
			Check: func(res *Result, user any) []Violation { n++; return nil }}
		x.Explore()
		if round%5 == 0 {
			fmt.Printf("round %d executions=%d rss=%s\n", round, n, rssMB())
		}
	}
}
