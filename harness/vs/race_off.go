//go:build !race

package vs

const RaceEnabled = false

func raceDisable()                 {}
func raceEnable()                  {}
func raceAcquireAddr(p *byte)      {}
func raceReleaseAddr(p *byte)      {}
func raceReleaseMergeAddr(p *byte) {}
func raceReadAddr(p *byte)         {}
func raceWriteAddr(p *byte)        {}
func RaceErrors() int              { return 0 }
func RaceAcquire(p *byte)          {}
func RaceRelease(p *byte)          {}
func RaceReleaseMerge(p *byte)     {}

func RaceReadRange(b []byte)  {}
func RaceWriteRange(b []byte) {}
