package vs

// Chan[T] replaces `chan T` in rewritten code. Semantics follow the Go spec:
// nil channels block forever, send on / close of a closed channel panics,
// receive on a closed channel yields the zero value, unbuffered channels
// rendezvous, select among several ready cases is an explorer choice.

type selState struct {
	t     *Thread
	fired int // -1: not completed by a partner
}

type recvWaiter[T any] struct {
	s   *selState
	idx int
	val T
	ok  bool
}

type sendWaiter[T any] struct {
	s   *selState
	idx int
	val T
}

type Chan[T any] struct {
	id     int
	cap    int
	buf    []T
	closed bool
	recvq  []*recvWaiter[T]
	sendq  []*sendWaiter[T]
	site   string
	// race-mode cells
	rcClose *byte   // released by close, acquired by receive-of-closed; read by send, written by close
	rcSlots []*byte // one per buffer slot (index = sequence number mod cap); slot 0 for unbuffered
	sendSeq uint64
	recvSeq uint64
}

//go:norace
func NewChan[T any](site string, n ...int) *Chan[T] {
	c := &Chan[T]{id: NewObj(), site: site, rcClose: SyncAddr()}
	if len(n) > 0 {
		c.cap = n[0]
	}
	if c.cap < 0 {
		panic(RuntimeError("makechan: size out of range"))
	}
	ns := c.cap
	if ns == 0 {
		ns = 1
	}
	c.rcSlots = make([]*byte, ns)
	for i := range c.rcSlots {
		c.rcSlots[i] = SyncAddr()
	}
	return c
}

//go:norace
func (c *Chan[T]) ID() int {
	if c == nil {
		return 0
	}
	return c.id
}

//go:norace
func (c *Chan[T]) Len() int {
	if c == nil {
		return 0
	}
	checkAbort()
	return len(c.buf)
}

//go:norace
func (c *Chan[T]) Cap() int {
	if c == nil {
		return 0
	}
	return c.cap
}

//go:norace
func checkAbort() {
	if cur != nil && cur.aborting {
		panic(abortSentinel{})
	}
}

//go:norace
func (c *Chan[T]) liveRecvWaiter(self *Thread) *recvWaiter[T] {
	for _, w := range c.recvq {
		if w.s.fired < 0 && w.s.t != self {
			return w
		}
	}
	return nil
}

//go:norace
func (c *Chan[T]) liveSendWaiter(self *Thread) *sendWaiter[T] {
	for _, w := range c.sendq {
		if w.s.fired < 0 && w.s.t != self {
			return w
		}
	}
	return nil
}

//go:norace
func (c *Chan[T]) removeRecv(w *recvWaiter[T]) {
	for i, x := range c.recvq {
		if x == w {
			for j := i; j+1 < len(c.recvq); j++ { // no append/copy: slicecopy carries race hooks
				c.recvq[j] = c.recvq[j+1]
			}
			c.recvq[len(c.recvq)-1] = nil
			c.recvq = c.recvq[:len(c.recvq)-1]
			return
		}
	}
}

//go:norace
func (c *Chan[T]) removeSend(w *sendWaiter[T]) {
	for i, x := range c.sendq {
		if x == w {
			for j := i; j+1 < len(c.sendq); j++ {
				c.sendq[j] = c.sendq[j+1]
			}
			c.sendq[len(c.sendq)-1] = nil
			c.sendq = c.sendq[:len(c.sendq)-1]
			return
		}
	}
}

//go:norace
func (c *Chan[T]) sendReadyFor(self *Thread) bool {
	if c == nil {
		return false
	}
	return c.closed || len(c.buf) < c.cap || (c.cap == 0 && c.liveRecvWaiter(self) != nil)
}

//go:norace
func (c *Chan[T]) recvReadyFor(self *Thread) bool {
	if c == nil {
		return false
	}
	return len(c.buf) > 0 || c.closed || (c.cap == 0 && c.liveSendWaiter(self) != nil)
}

// doSend performs a ready send by the running thread.
//
//go:norace
func (c *Chan[T]) doSend(self *Thread, v T) {
	raceReadAddr(c.rcClose)
	if c.closed {
		panic(RuntimeError("send on closed channel"))
	}
	if c.cap == 0 {
		rw := c.liveRecvWaiter(self)
		if rw == nil {
			panic("vs: doSend on unready unbuffered channel")
		}
		rw.val, rw.ok = v, true
		rw.s.fired = rw.idx
		// rendezvous: sender -> receiver and receiver -> sender
		raceAcquireAddr(rw.s.t.syncA)
		raceReleaseAddr(rw.s.t.syncB)
		return
	}
	slot := c.rcSlots[c.sendSeq%uint64(c.cap)]
	c.sendSeq++
	raceAcquireAddr(slot)
	raceReleaseAddr(slot)
	c.buf = append(c.buf, v)
}

// doRecv performs a ready receive by the running thread.
//
//go:norace
func (c *Chan[T]) doRecv(self *Thread) (v T, ok bool) {
	if len(c.buf) > 0 {
		v = c.buf[0]
		var zero T
		c.buf[0] = zero
		c.buf = c.buf[1:]
		slot := c.rcSlots[c.recvSeq%uint64(c.cap)]
		c.recvSeq++
		raceAcquireAddr(slot)
		raceReleaseAddr(slot)
		return v, true
	}
	if c.closed {
		raceAcquireAddr(c.rcClose)
		return v, false
	}
	if c.cap == 0 {
		sw := c.liveSendWaiter(self)
		if sw == nil {
			panic("vs: doRecv on unready unbuffered channel")
		}
		v = sw.val
		sw.s.fired = sw.idx
		raceAcquireAddr(sw.s.t.syncA)
		raceReleaseAddr(sw.s.t.syncB)
		return v, true
	}
	panic("vs: doRecv on unready channel")
}

type sendOp[T any] struct {
	c *Chan[T]
	w *sendWaiter[T]
}

//go:norace
func (o *sendOp[T]) Ready() bool {
	return o.w.s.fired >= 0 || o.c.sendReadyFor(o.w.s.t)
}

type recvOp[T any] struct {
	c *Chan[T]
	w *recvWaiter[T]
}

//go:norace
func (o *recvOp[T]) Ready() bool {
	return o.w.s.fired >= 0 || o.c.recvReadyFor(o.w.s.t)
}

//go:norace
func (c *Chan[T]) Send(v T) {
	if cur == nil {
		c.freeSend(v)
		return
	}
	checkAbort()
	if c == nil {
		BlockForever("send-nil", "")
	}
	self := cur.running
	w := &sendWaiter[T]{s: &selState{t: self, fired: -1}, val: v}
	c.sendq = append(c.sendq, w)
	Block(&Op{Kind: "send", Obj: c.id, Site: c.site, W: &sendOp[T]{c, w}})
	c.removeSend(w)
	if w.s.fired >= 0 {
		raceAcquireAddr(self.syncB)
		return
	}
	c.doSend(self, v)
}

//go:norace
func (c *Chan[T]) Recv() T {
	v, _ := c.Recv2()
	return v
}

//go:norace
func (c *Chan[T]) Recv2() (T, bool) {
	if cur == nil {
		return c.freeRecv()
	}
	checkAbort()
	if c == nil {
		BlockForever("recv-nil", "")
	}
	self := cur.running
	w := &recvWaiter[T]{s: &selState{t: self, fired: -1}}
	c.recvq = append(c.recvq, w)
	Block(&Op{Kind: "recv", Obj: c.id, Site: c.site, W: &recvOp[T]{c, w}})
	c.removeRecv(w)
	if w.s.fired >= 0 {
		raceAcquireAddr(self.syncB)
		return w.val, w.ok
	}
	return c.doRecv(self)
}

//go:norace
func (c *Chan[T]) Close() {
	if c == nil {
		panic(RuntimeError("close of nil channel"))
	}
	if cur != nil {
		checkAbort()
		Block(&Op{Kind: "close", Obj: c.id, Site: c.site, W: alwaysReady{}})
	}
	if c.closed {
		panic(RuntimeError("close of closed channel"))
	}
	raceWriteAddr(c.rcClose)
	raceReleaseAddr(c.rcClose)
	c.closed = true
}

// free-running fallbacks (outside an execution, single goroutine only): a
// buffered channel works as a queue, anything that would block panics.
//
//go:norace
func (c *Chan[T]) freeSend(v T) {
	if c == nil || (!c.closed && len(c.buf) >= c.cap) {
		panic("vs: blocking send outside an execution")
	}
	if c.closed {
		panic(RuntimeError("send on closed channel"))
	}
	c.buf = append(c.buf, v)
}

//go:norace
func (c *Chan[T]) freeRecv() (v T, ok bool) {
	if c != nil && len(c.buf) > 0 {
		v = c.buf[0]
		c.buf = c.buf[1:]
		return v, true
	}
	if c != nil && c.closed {
		return v, false
	}
	panic("vs: blocking receive outside an execution")
}

// ---- select ----

type SelCase interface {
	register(s *selState, idx int)
	unregister()
	readyFor(self *Thread) bool
	perform(self *Thread)
	objID() int
}

type RecvCaseT[T any] struct {
	c   *Chan[T]
	w   *recvWaiter[T]
	Val T
	Ok  bool
}

//go:norace
func RecvCase[T any](c *Chan[T]) *RecvCaseT[T] { return &RecvCaseT[T]{c: c} }

//go:norace
func (k *RecvCaseT[T]) register(s *selState, idx int) {
	if k.c == nil {
		return
	}
	k.w = &recvWaiter[T]{s: s, idx: idx}
	k.c.recvq = append(k.c.recvq, k.w)
}

//go:norace
func (k *RecvCaseT[T]) unregister() {
	if k.c == nil || k.w == nil {
		return
	}
	k.c.removeRecv(k.w)
	if k.w.s.fired == k.w.idx {
		k.Val, k.Ok = k.w.val, k.w.ok
	}
}

//go:norace
func (k *RecvCaseT[T]) readyFor(self *Thread) bool { return k.c.recvReadyFor(self) }

//go:norace
func (k *RecvCaseT[T]) perform(self *Thread) { k.Val, k.Ok = k.c.doRecv(self) }

//go:norace
func (k *RecvCaseT[T]) objID() int { return k.c.ID() }

type SendCaseT[T any] struct {
	c *Chan[T]
	w *sendWaiter[T]
	v T
}

//go:norace
func SendCase[T any](c *Chan[T], v T) *SendCaseT[T] { return &SendCaseT[T]{c: c, v: v} }

//go:norace
func (k *SendCaseT[T]) register(s *selState, idx int) {
	if k.c == nil {
		return
	}
	k.w = &sendWaiter[T]{s: s, idx: idx, val: k.v}
	k.c.sendq = append(k.c.sendq, k.w)
}

//go:norace
func (k *SendCaseT[T]) unregister() {
	if k.c == nil || k.w == nil {
		return
	}
	k.c.removeSend(k.w)
}

//go:norace
func (k *SendCaseT[T]) readyFor(self *Thread) bool { return k.c.sendReadyFor(self) }

//go:norace
func (k *SendCaseT[T]) perform(self *Thread) { k.c.doSend(self, k.v) }

//go:norace
func (k *SendCaseT[T]) objID() int { return k.c.ID() }

type selOp struct {
	s          *selState
	cases      []SelCase
	hasDefault bool
}

//go:norace
func (o *selOp) Ready() bool {
	if o.hasDefault || o.s.fired >= 0 {
		return true
	}
	for _, k := range o.cases {
		if k.readyFor(o.s.t) {
			return true
		}
	}
	return false
}

// Select returns the index of the chosen case, -1 for default.
//
//go:norace
func Select(site string, hasDefault bool, cases ...SelCase) int {
	if cur == nil {
		panic("vs: select outside an execution")
	}
	checkAbort()
	self := cur.running
	s := &selState{t: self, fired: -1}
	for i, k := range cases {
		k.register(s, i)
	}
	obj := 0
	if len(cases) > 0 {
		obj = cases[0].objID()
	}
	Block(&Op{Kind: "select", Obj: obj, Site: site, W: &selOp{s: s, cases: cases, hasDefault: hasDefault}})
	fired := s.fired
	if fired < 0 {
		s.fired = len(cases) + 1 // no partner may complete us from now on
	}
	for _, k := range cases {
		k.unregister()
	}
	if fired >= 0 {
		raceAcquireAddr(self.syncB)
		if o := cases[fired].objID(); o != obj {
			Touch(o)
		}
		return fired
	}
	var ready [16]int
	rs := ready[:0]
	for i, k := range cases {
		if k.readyFor(self) {
			rs = append(rs, i)
		}
	}
	if len(rs) == 0 {
		if !hasDefault {
			panic("vs: select woke with nothing ready")
		}
		return -1
	}
	pick := 0
	if len(rs) > 1 {
		// Go picks uniformly among the ready cases, so a loop around a select cannot starve a ready case for ever.
		// The default answer models that fairness deterministically: when the same thread meets the same select with
		// the same ready cases again without having done anything else in between, the default moves on to the next
		// ready case (source order must not matter: a writer loop that spins over closed channels until it picks its
		// stop channel terminates in Go wherever the stop case is written)
		var mask uint64
		for _, i := range rs {
			mask |= 1 << uint(i)
		}
		if self.selSite == site && self.selMask == mask && self.selAt == self.nops {
			self.selRot++
		} else {
			self.selRot = 0
		}
		self.selSite, self.selMask = site, mask
		if r := self.selRot % len(rs); r > 0 {
			var tmp [16]int
			n := copyInts(tmp[:], rs)
			for i := 0; i < n; i++ {
				rs[i] = tmp[(i+r)%n]
			}
		}
		var cs [16]int8
		costs := cs[:len(rs)]
		for i := range costs {
			if i > 0 {
				costs[i] = 1
			}
		}
		pick = Choose("select", costs)
	}
	idx := rs[pick]
	cases[idx].perform(self)
	self.selAt = self.nops + 1 // the next select by this thread is "again" only if it is its very next operation
	if o := cases[idx].objID(); o != obj {
		Touch(o)
	}
	return idx
}

//go:norace
func copyInts(dst, src []int) int {
	n := 0
	for i := range src {
		if i < len(dst) {
			dst[i] = src[i]
			n++
		}
	}
	return n
}
