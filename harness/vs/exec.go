// Package vs is the controlled scheduler of engine E1: every goroutine of the
// code under test (after rewriting by vgen) is a Thread that runs only while it
// holds the single run token. All shared scheduler state is touched only by
// the token holder, in functions marked //go:norace so that, in the -race
// build, the race runtime sees nothing but the program's own accesses and the
// happens-before edges re-created explicitly in race_on.go.
package vs

import (
	"fmt"
	"runtime/debug"
	"strings"
	"sync"
)

// Chooser decides every nondeterministic choice of one execution.
// costs[i] is the deviation cost of option i; option 0 always costs 0.
type Chooser interface {
	Choose(kind string, costs []int8) int
}

// Waiter describes a pending (possibly blocking) operation.
type Waiter interface {
	Ready() bool
}

type alwaysReady struct{}

//go:norace
func (alwaysReady) Ready() bool { return true }

// Op is an announced operation of a thread.
type Op struct {
	Kind     string
	Obj      int
	Site     string
	W        Waiter
	Timer    bool
	Deadline int64
}

type Thread struct {
	ID     int
	Name   string
	Daemon bool // allowed to stay blocked at quiescence
	wake   chan struct{}
	op     *Op
	done   bool
	nops   int
	// race-mode sync cells: syncA is released by this thread before it parks,
	// syncB is released by the partner that completes a rendezvous for it.
	syncA, syncB *byte
	// fairness of repeated selects (see Select)
	selSite string
	selMask uint64
	selRot  int
	selAt   int
	syncGo  *byte // released by the parent at the go statement, acquired by the thread when it starts
}

type PanicInfo struct {
	Thread string
	Value  string
	Stack  string
}

type Blocked struct {
	Thread string
	Kind   string
	Obj    int
	Site   string
	Daemon bool
}

type Step struct {
	Thread int
	Kind   string
	Obj    int
}

// Result is what one execution leaves behind for the explorer.
type Result struct {
	Steps     int
	Panic     *PanicInfo
	Blocked   []Blocked // threads blocked at quiescence
	Horizon   bool      // step horizon hit
	TraceHash uint64
	// TimerEarly counts timers that fired while a non-timer thread was runnable
	// (0 = "every response arrived well within its timeout").
	TimerEarly int
	Trace      []Step // only when Exec.KeepTrace
	StateKeys  []uint64
}

type Exec struct {
	ch        Chooser
	threads   []*Thread
	running   *Thread
	aborting  bool
	mainWake  chan struct{}
	exitAck   chan struct{}
	nextObj   int
	clock     int64 // virtual nanoseconds since Base
	steps     int
	horizon   int
	res       Result
	keepTrace bool
	keepKeys  bool
	stateKey  uint64
	digest    func() uint64
	holdBr    bool
	opts      []*Thread
	costs     []int8
	objVer    []uint32
	joinAddr  *byte // race mode: released by every thread at exit, acquired by Run's caller
	// User is free for the harness (per-execution context).
	User any
}

type abortSentinel struct{}

var cur *Exec

// Cur returns the running execution (nil outside one).
//
//go:norace
func Cur() *Exec { return cur }

//go:norace
func Active() bool { return cur != nil }

// Config of one execution.
type Config struct {
	Horizon   int
	KeepTrace bool
	KeepKeys  bool
	User      any
	// HoldBranching: choice points are marked "not to be branched on" until the body calls BranchFromHere (a long
	// deterministic preamble, e.g. 65536 frames to reach a serial wrap, is then run once per execution but not explored)
	HoldBranching bool
	// Digest (optional) summarises the harness-visible state; the explorer's state cache compares it whenever two
	// executions reach the same state key (a difference means the key is too coarse: the run is declared broken)
	Digest func() uint64
}

// Run executes body as thread 0 under chooser ch until quiescence, a panic or
// the horizon, then unwinds every remaining thread.
//
//go:norace
func Run(body func(), ch Chooser, cfg Config) *Result {
	if cur != nil {
		panic("vs.Run: nested execution")
	}
	addrNext = 0 // rewind the pool of race-annotation addresses (see SyncAddr)
	e := &Exec{ch: ch, mainWake: make(chan struct{}, 1), exitAck: make(chan struct{}, 1),
		horizon: cfg.Horizon, keepTrace: cfg.KeepTrace, keepKeys: cfg.KeepKeys, digest: cfg.Digest, holdBr: cfg.HoldBranching, User: cfg.User,
		joinAddr: SyncAddr()}
	if e.horizon == 0 {
		e.horizon = 200000
	}
	cur = e
	t := e.newThread("main", body)
	e.running = t
	raceDisable()
	t.wake <- struct{}{}
	<-e.mainWake
	raceEnable()
	// quiescent, panicked or horizon: collect blocked threads, then unwind.
	if e.res.Panic == nil {
		for _, th := range e.threads {
			if !th.done && th.op != nil {
				e.res.Blocked = append(e.res.Blocked, Blocked{Thread: th.Name, Kind: th.op.Kind, Obj: th.op.Obj, Site: th.op.Site, Daemon: th.Daemon})
			}
		}
	}
	e.aborting = true
	for _, th := range e.threads {
		if !th.done {
			raceDisable()
			th.wake <- struct{}{}
			<-e.exitAck
			raceEnable()
		}
	}
	e.res.Steps = e.steps
	raceAcquireAddr(e.joinAddr)
	cur = nil
	r := e.res
	return &r
}

//go:norace
func (e *Exec) newThread(name string, fn func()) *Thread {
	t := &Thread{ID: len(e.threads), Name: name, wake: make(chan struct{}, 1), syncA: SyncAddr(), syncB: SyncAddr(), syncGo: SyncAddr()}
	t.op = &Op{Kind: "start", W: alwaysReady{}}
	e.threads = append(e.threads, t)
	// the go statement's happens-before edge (parent before child): threads run on pooled goroutines, so the race
	// runtime does not see a goroutine creation here
	raceReleaseAddr(t.syncGo)
	startOnPooledGoroutine(poolJob{e, t, fn})
	return t
}

// Threads of all executions run on a pool of long-lived goroutines: the race runtime keeps memory for every goroutine
// it has ever seen (about 1 KB each, never returned), and an exploration starts ~10 goroutines per execution, millions
// of times. The pool's own bookkeeping is hidden from the race detector (RaceDisable) so that it orders nothing.
type poolJob struct {
	e  *Exec
	t  *Thread
	fn func()
}

var (
	poolMu   sync.Mutex
	poolIdle [8192]chan poolJob // a fixed array, no append: runtime.growslice carries race hooks
	poolN    int
)

//go:norace
func poolPop() chan poolJob {
	poolMu.Lock()
	defer poolMu.Unlock()
	if poolN == 0 {
		return nil
	}
	poolN--
	ch := poolIdle[poolN]
	poolIdle[poolN] = nil
	return ch
}

//go:norace
func poolPush(ch chan poolJob) bool {
	poolMu.Lock()
	defer poolMu.Unlock()
	if poolN == len(poolIdle) {
		return false
	}
	poolIdle[poolN] = ch
	poolN++
	return true
}

//go:norace
func startOnPooledGoroutine(j poolJob) {
	raceDisable()
	ch := poolPop()
	if ch == nil {
		ch = make(chan poolJob, 1)
		go poolWorker(ch)
	}
	ch <- j
	raceEnable()
}

//go:norace
func poolWorker(ch chan poolJob) {
	for {
		raceDisable()
		j := <-ch
		raceEnable()
		threadRoot(j.e, j.t, j.fn)
		raceDisable()
		ok := poolPush(ch)
		raceEnable()
		if !ok {
			return
		}
	}
}

func threadRoot(e *Exec, t *Thread, fn func()) {
	raceDisable()
	<-t.wake
	raceEnable()
	raceAcquireAddr(t.syncGo)
	defer threadExit(e, t)
	if isAborting(e) {
		panic(abortSentinel{})
	}
	clearOp(t)
	fn()
}

//go:norace
func isAborting(e *Exec) bool { return e.aborting }

//go:norace
func clearOp(t *Thread) { t.op = nil }

//go:norace
func threadExit(e *Exec, t *Thread) {
	r := recover()
	t.done = true
	t.op = nil
	if _, ok := r.(abortSentinel); ok || e.aborting {
		raceReleaseMergeAddr(e.joinAddr)
		raceDisable()
		e.exitAck <- struct{}{}
		raceEnable()
		return
	}
	if r != nil {
		if e.res.Panic == nil {
			e.res.Panic = &PanicInfo{Thread: t.Name, Value: fmt.Sprint(r), Stack: trimStack(string(debug.Stack()))}
		}
		raceReleaseMergeAddr(e.joinAddr)
		raceDisable()
		e.mainWake <- struct{}{}
		raceEnable()
		return
	}
	e.schedule(t)
}

//go:norace
func trimStack(s string) string {
	lines := strings.Split(s, "\n")
	out := make([]string, 0, 40)
	for _, l := range lines {
		if len(out) >= 60 {
			break
		}
		out = append(out, l)
	}
	return strings.Join(out, "\n")
}

// Go starts fn as a new thread. The parent keeps running.
//
//go:norace
func Go(site string, fn func()) {
	e := cur
	if e == nil {
		go fn()
		return
	}
	if e.aborting {
		panic(abortSentinel{})
	}
	e.newThread(fmt.Sprintf("g%d@%s", len(e.threads), site), fn)
}

// GoNamed is Go with an explicit thread name (harness threads).
//
//go:norace
func GoNamed(name string, daemon bool, fn func()) *Thread {
	e := cur
	if e.aborting {
		panic(abortSentinel{})
	}
	t := e.newThread(name, fn)
	t.Daemon = daemon
	return t
}

// SetDaemon marks the calling thread as allowed to stay blocked forever.
//
//go:norace
func SetDaemon(d bool) {
	if cur != nil && cur.running != nil {
		cur.running.Daemon = d
	}
}

// NewObj allocates an object id (deterministic per schedule).
//
//go:norace
func NewObj() int {
	e := cur
	if e == nil {
		return 0
	}
	e.nextObj++
	return e.nextObj
}

// Block announces op and returns when the scheduler has chosen this thread
// while op.W is ready. It is the only scheduling point.
//
//go:norace
func Block(op *Op) {
	e := cur
	if e == nil {
		// outside an execution: only non-blocking use is possible.
		if op.W == nil || op.W.Ready() {
			return
		}
		panic("vs: blocking operation outside an execution: " + op.Kind)
	}
	if e.aborting {
		panic(abortSentinel{})
	}
	t := e.running
	if op.W == nil {
		op.W = alwaysReady{}
	}
	t.op = op
	raceReleaseAddr(t.syncA)
	e.schedule(t)
	t.op = nil
}

// Self returns the running thread.
//
//go:norace
func Self() *Thread {
	if cur == nil {
		return nil
	}
	return cur.running
}

// Choose is a data choice (select case, fault, map order).
//
//go:norace
func Choose(kind string, costs []int8) int {
	e := cur
	if e == nil || len(costs) <= 1 {
		return 0
	}
	if e.aborting {
		panic(abortSentinel{})
	}
	i := e.ch.Choose(kind, costs)
	e.mix(uint64(0x9e3779b97f4a7c15) * uint64(i+1))
	if e.keepKeys && e.running != nil {
		// a data choice is part of the state: which thread, at which of its steps, chose what
		k := hashStr(kind) ^ (uint64(e.running.ID+1) * 0xff51afd7ed558ccd) ^ (uint64(e.running.nops+1) * 0x9e3779b97f4a7c15) ^ (uint64(i+1) * 0x94d049bb133111eb)
		k *= 0xbf58476d1ce4e5b9
		k ^= k >> 31
		e.stateKey += k
	}
	return i
}

// SyncAddr hands out an address for race-detector annotations (RaceAcquire/RaceRelease). The addresses come from a
// pool that is rewound at the start of every execution: the race runtime keeps per-address metadata that it does not
// give back, so fresh addresses per execution make a long exploration grow without bound (about 13 KB per execution
// of a server scenario). Re-using an address only adds happens-before edges from an EARLIER execution, which are
// implied anyway by the join edge between executions.
//
//go:norace
func SyncAddr() *byte {
	if !RaceEnabled {
		return nil
	}
	if addrNext == len(addrPool) {
		addrPool = append(addrPool, new(byte))
	}
	a := addrPool[addrNext]
	addrNext++
	return a
}

var (
	addrPool []*byte
	addrNext int
)

// BranchFromHere ends the preamble of an execution started with HoldBranching.
//
//go:norace
func BranchFromHere() {
	if cur != nil {
		cur.holdBr = false
	}
}

// Held reports whether choice points are currently exempt from branching.
//
//go:norace
func Held() bool { return cur != nil && cur.holdBr }

// PointKey is the state key at the moment of a choice (for the explorer's state cache), with the harness digest.
//
//go:norace
func PointKey() (key, digest uint64) {
	e := cur
	if e == nil || !e.keepKeys {
		return 0, 0
	}
	if e.digest != nil {
		digest = e.digest()
	}
	return e.stateKey, digest
}

// Touch records that the running thread's current step also acted on object obj (a select that completed on a
// channel other than its first case): the object's version takes part in the state key.
//
//go:norace
func Touch(obj int) {
	e := cur
	if e == nil || !e.keepKeys || e.running == nil {
		return
	}
	for len(e.objVer) <= obj {
		e.objVer = append(e.objVer, 0)
	}
	v := e.objVer[obj]
	e.objVer[obj] = v + 1
	k := (uint64(e.running.ID+1) * 0xff51afd7ed558ccd) ^ (uint64(obj+1) * 0xc4ceb9fe1a85ec53) ^ (uint64(e.running.nops+1) * 0x9e3779b97f4a7c15) ^ (uint64(v+1) * 0xd6e8feb86659fd93)
	k *= 0x94d049bb133111eb
	k ^= k >> 29
	e.stateKey += k
}

//go:norace
func (e *Exec) mix(v uint64) {
	h := e.res.TraceHash
	h ^= v + 0x9e3779b97f4a7c15 + (h << 6) + (h >> 2)
	e.res.TraceHash = h
}

//go:norace
func hashStr(s string) uint64 {
	h := uint64(14695981039346656037)
	for i := 0; i < len(s); i++ {
		h ^= uint64(s[i])
		h *= 1099511628211
	}
	return h
}

//go:norace
func (e *Exec) schedule(from *Thread) {
	if e.aborting {
		panic(abortSentinel{})
	}
	e.steps++
	if e.steps > e.horizon {
		e.res.Horizon = true
		e.handToMain(from)
		return
	}
	// enabled threads in canonical order: the announcing thread first if it
	// is still enabled, then ascending ids; timers last.
	opts := e.opts[:0]
	fromEnabled := !from.done && from.op != nil && from.op.W.Ready()
	if fromEnabled && !from.op.Timer {
		opts = append(opts, from)
	}
	for _, th := range e.threads {
		if th == from || th.done || th.op == nil || th.op.Timer {
			continue
		}
		if th.op.W.Ready() {
			opts = append(opts, th)
		}
	}
	nNonTimer := len(opts)
	// timers: ascending deadline (ties by id)
	nt := 0
	for _, th := range e.threads {
		if th.done || th.op == nil || !th.op.Timer {
			continue
		}
		// insertion sort into tail
		opts = append(opts, th)
		nt++
		for j := len(opts) - 1; j > nNonTimer; j-- {
			a, b := opts[j-1], opts[j]
			if a.op.Deadline > b.op.Deadline || (a.op.Deadline == b.op.Deadline && a.ID > b.ID) {
				opts[j-1], opts[j] = b, a
			} else {
				break
			}
		}
	}
	e.opts = opts
	if len(opts) == 0 {
		e.handToMain(from)
		return
	}
	idx := 0
	if len(opts) > 1 {
		costs := e.costs[:0]
		for i, th := range opts {
			c := int8(1)
			if i == 0 {
				c = 0
			} else if th.op.Timer && (nNonTimer > 0 || i > nNonTimer) {
				// a timer fired while a thread could still run, or ahead of an earlier timer: a deviation of the
				// environment (cost class 2), not a mere thread switch
				c = 2
			}
			costs = append(costs, c)
		}
		e.costs = costs
		idx = e.ch.Choose("sched", costs)
	}
	next := opts[idx]
	// trace
	op := next.op
	next.nops++
	sh := hashStr(op.Kind) ^ (uint64(next.ID+1) * 0xff51afd7ed558ccd) ^ (uint64(op.Obj+1) * 0xc4ceb9fe1a85ec53)
	e.mix(sh)
	if e.keepTrace {
		e.res.Trace = append(e.res.Trace, Step{Thread: next.ID, Kind: op.Kind, Obj: op.Obj})
	}
	if op.Timer {
		if nNonTimer > 0 {
			e.res.TimerEarly++
		}
		if e.clock < op.Deadline {
			e.clock = op.Deadline
		}
	}
	if e.keepKeys {
		// Mazurkiewicz-style key: commutative sum over steps of a hash of
		// (thread, thread-local op index, kind, object, object version, virtual clock at the step).
		for len(e.objVer) <= op.Obj {
			e.objVer = append(e.objVer, 0)
		}
		v := e.objVer[op.Obj]
		if op.Obj != 0 { // object 0 = "no shared object": such steps commute with every other step
			e.objVer[op.Obj] = v + 1
		}
		k := sh ^ (uint64(next.nops) * 0x9e3779b97f4a7c15) ^ (uint64(v+1) * 0xd6e8feb86659fd93) ^ (uint64(e.clock) * 0xa0761d6478bd642f)
		k *= 0xbf58476d1ce4e5b9
		k ^= k >> 29
		e.stateKey += k
		e.res.StateKeys = append(e.res.StateKeys, e.stateKey)
	}
	if next == from {
		return
	}
	e.running = next
	if from.done {
		raceReleaseMergeAddr(e.joinAddr)
	}
	raceDisable()
	next.wake <- struct{}{}
	if from.done {
		raceEnable()
		return
	}
	<-from.wake
	raceEnable()
	if e.aborting {
		panic(abortSentinel{})
	}
}

// handToMain ends the execution (quiescence / horizon) from thread `from`.
//
//go:norace
func (e *Exec) handToMain(from *Thread) {
	raceReleaseMergeAddr(e.joinAddr)
	raceDisable()
	e.mainWake <- struct{}{}
	if from.done {
		raceEnable()
		return
	}
	<-from.wake
	raceEnable()
	panic(abortSentinel{})
}

// ---- virtual clock ----

// freeClock is the virtual clock outside executions (sequential E2 drivers).
var freeClock int64

//go:norace
func ClockNanos() int64 {
	if cur == nil {
		return freeClock
	}
	return cur.clock
}

//go:norace
func AdvanceClock(d int64) {
	if cur != nil {
		cur.clock += d
	} else {
		freeClock += d
	}
}

// SetFreeClock sets the virtual clock used outside executions.
//
//go:norace
func SetFreeClock(n int64) { freeClock = n }

type timerWaiter struct{}

//go:norace
func (timerWaiter) Ready() bool { return true }

// SleepNanos parks the thread as a timer: it may fire at any later scheduling
// point (firing ahead of a runnable thread is a deviation).
//
//go:norace
func SleepNanos(d int64, site string) {
	if cur == nil {
		return
	}
	if d < 0 {
		d = 0
	}
	Block(&Op{Kind: "sleep", Site: site, W: timerWaiter{}, Timer: true, Deadline: cur.clock + d})
}

// Yield is a plain scheduling point.
//
//go:norace
func Yield(kind string, obj int) {
	Block(&Op{Kind: kind, Obj: obj, W: alwaysReady{}})
}

type foreverWaiter struct{}

//go:norace
func (foreverWaiter) Ready() bool { return false }

//go:norace
func BlockForever(kind, site string) {
	Block(&Op{Kind: kind, Site: site, W: foreverWaiter{}})
	panic("vs: woke from forever")
}

// RuntimeError mimics the runtime's plainError panics of channel operations.
type RuntimeError string

func (e RuntimeError) Error() string { return string(e) }
func (e RuntimeError) RuntimeError() {}

// ThreadCount returns how many threads exist so far.
//
//go:norace
func ThreadCount() int {
	if cur == nil {
		return 0
	}
	return len(cur.threads)
}

// MarkDaemonFrom marks every thread created since index from as daemon.
//
//go:norace
func MarkDaemonFrom(from int) {
	if cur == nil {
		return
	}
	for _, t := range cur.threads[from:] {
		t.Daemon = true
	}
}

// Steps returns the number of scheduling steps so far (a logical clock for
// ordering observations).
//
//go:norace
func StepNow() int {
	if cur == nil {
		return 0
	}
	return cur.steps
}

type idleWaiter struct{ self *Thread }

//go:norace
func (w idleWaiter) Ready() bool {
	for _, th := range cur.threads {
		if th == w.self || th.done || th.op == nil {
			continue
		}
		if th.op.Timer {
			continue
		}
		if _, isIdle := th.op.W.(idleWaiter); isIdle {
			continue
		}
		if th.op.W.Ready() {
			return false
		}
	}
	return true
}

// WaitIdle blocks the calling (harness) thread until no other non-timer thread
// can run: everything the system does in reaction to earlier inputs is done.
//
//go:norace
func WaitIdle() {
	if cur == nil {
		return
	}
	Block(&Op{Kind: "hwait-idle", W: idleWaiter{cur.running}})
}
