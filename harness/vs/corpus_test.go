package vs

import "testing"

func TestCorpus(t *testing.T) {
	if RaceEnabled {
		t.Skip("the race-mode corpus contains seeded races; it is run by `vcheck C18` (vs.SelfTest), not under go test")
	}
	rep, err := SelfTest()
	for _, l := range rep {
		t.Log(l)
	}
	if err != nil {
		t.Fatal(err)
	}
}

func TestStateCache(t *testing.T) {
	if RaceEnabled {
		t.Skip("not under -race")
	}
	rep, err := CacheSelfTest()
	for _, l := range rep {
		t.Log(l)
	}
	if err != nil {
		t.Fatal(err)
	}
}
