package main

import (
	"fmt"
	"os"
	"runtime"
	"time"
)

// VERIF_MEMTRACE=<file>: every 30 s each process appends its Go heap figures and goroutine count (debugging aid).
func init() {
	f := os.Getenv("VERIF_MEMTRACE")
	if f == "" {
		return
	}
	go func() {
		for {
			time.Sleep(30 * time.Second)
			var m runtime.MemStats
			runtime.ReadMemStats(&m)
			if fh, err := os.OpenFile(f, os.O_APPEND|os.O_CREATE|os.O_WRONLY, 0o644); err == nil {
				fmt.Fprintf(fh, "pid=%d heapAlloc=%dMB heapSys=%dMB sys=%dMB goroutines=%d numGC=%d\n", os.Getpid(), m.HeapAlloc>>20, m.HeapSys>>20, m.Sys>>20, runtime.NumGoroutine(), m.NumGC)
				fh.Close()
			}
		}
	}()
}
