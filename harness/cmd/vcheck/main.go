package main

import (
	"verif/harness/vc"

	_ "verif/harness/checks"
)

func main() { vc.Main() }
