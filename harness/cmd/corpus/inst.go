//go:build !corpusnative

package main

import (
	"fmt"
	"os"

	"verif/harness/corpus"
	"verif/harness/vs"
)

// instrumented build (package corpus rewritten by vgen through the overlay):
// every program is run under ALL schedules within 2 deviations; each execution
// must end without panic or stranded thread and print the same line; in the
// -race build no execution may produce a race report.
func main() {
	bad := 0
	for _, p := range corpus.Progs {
		p := p
		outs := map[string]int{}
		x := &vs.Explorer{Name: p.Name, Bound: 2, Horizon: 100000,
			Make: func() (func(), any) {
				var out string
				return func() { out = p.Run() }, &out
			},
			Check: func(res *vs.Result, user any) []vs.Violation {
				if res.Panic != nil {
					return []vs.Violation{{Sig: "panic", Msg: res.Panic.Value + "\n" + res.Panic.Stack}}
				}
				for _, b := range res.Blocked {
					return []vs.Violation{{Sig: "stranded", Msg: fmt.Sprintf("%+v", b)}}
				}
				outs[*user.(*string)]++
				return nil
			}}
		before := vs.RaceErrors()
		x.Explore()
		races := vs.RaceErrors() - before
		first := ""
		// the run-to-block execution's output is the reference line
		_, u, _ := x.RunOnce(nil, nil, false)
		first = *u.(*string)
		fmt.Printf("%s => %s\n", p.Name, first)
		if len(outs) != 1 || len(x.Found) > 0 || x.Stats.Nondet != "" || races != 0 {
			bad++
			fmt.Fprintf(os.Stderr, "CORPUS-FAIL %s: outputs=%v found=%v nondet=%q races=%d executions=%d\n", p.Name, outs, x.Found, x.Stats.Nondet, races, x.Stats.Executions)
		} else {
			fmt.Fprintf(os.Stderr, "corpus ok %s executions=%d\n", p.Name, x.Stats.Executions)
		}
	}
	if bad > 0 {
		os.Exit(1)
	}
}
