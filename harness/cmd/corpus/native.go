//go:build corpusnative

package main

import (
	"fmt"

	"verif/harness/corpus"
)

// native build: real goroutines, channels, time and sync.
func main() {
	for _, p := range corpus.Progs {
		fmt.Printf("%s => %s\n", p.Name, p.Run())
	}
}
