package main
import ("fmt"; "github.com/cuteLittleDevil/go-jt808/service"; _ "github.com/cuteLittleDevil/go-jt808/attachment"; _ "github.com/anishathalye/porcupine")
func main(){ fmt.Println(service.New != nil) }
