// confb: conformance B. Replays conversations that the model checker executed
// on the virtual socket over REAL loopback TCP against the UN-INSTRUMENTED
// build of /repo/service (this binary is built without the overlay and without
// the verif tag) and compares the bytes the real server writes with the bytes
// observed on the virtual socket. It validates the socket model and the
// rewriter; it decides nothing about the properties. Attachment sessions are
// replayed the same way against attachment.New(...).Run() (the checks drive
// one attachment connection through an accessor: this ties that entry point
// to the public one - options, accept loop, one FileEventer per connection).
package main

import (
	"bytes"
	"encoding/hex"
	"encoding/json"
	"errors"
	"fmt"
	"io"
	"log/slog"
	"net"
	"os"
	"sort"
	"sync"
	"time"

	"github.com/cuteLittleDevil/go-jt808/attachment"
	"github.com/cuteLittleDevil/go-jt808/protocol/jt808"
	"github.com/cuteLittleDevil/go-jt808/service"
	"github.com/cuteLittleDevil/go-jt808/shared/consts"
)

type step struct {
	Send   string   `json:"send_hex"`
	Expect []string `json:"expect_hex"` // frames written by the server after this send, in order
}

type trace struct {
	Name  string `json:"name"`
	Steps []step `json:"steps"`
	// attachment sessions (Server == "attachment"): the units are written one by one, the write side is closed, and
	// the server - attachment.New(...).Run() with the dialect set through WithActiveSafetyType and a recording
	// FileEventer installed through WithFileEventerFunc - must write exactly ExpectAll and hand the recorder exactly Files
	Server    string            `json:"server,omitempty"`
	Dialect   int               `json:"dialect,omitempty"`
	Writes    []string          `json:"writes_hex,omitempty"`
	ExpectAll string            `json:"expect_all_hex,omitempty"`
	Files     map[string]string `json:"files_hex,omitempty"`
}

// attRec is the FileEventer of one real attachment connection.
type attRec struct {
	mu    sync.Mutex
	files map[string][]byte
	quit  chan struct{}
	once  sync.Once
}

func (r *attRec) OnEvent(p *attachment.PackageProgress) {
	r.mu.Lock()
	r.files = map[string][]byte{}
	for n, pk := range p.Record {
		r.files[n] = append([]byte(nil), pk.StreamBody...)
	}
	r.mu.Unlock()
	if p.ProgressStage == attachment.ProgressStageSuccessQuit || p.ProgressStage == attachment.ProgressStageFailQuit {
		r.once.Do(func() { close(r.quit) })
	}
}

type attServer struct {
	addr string
	recs chan *attRec
	made int
}

var attServers = map[int]*attServer{}

// attServerFor starts (once per dialect) the real attachment server through its public API.
func attServerFor(dialect int) (*attServer, error) {
	if s, ok := attServers[dialect]; ok {
		return s, nil
	}
	l, err := net.Listen("tcp", "127.0.0.1:0")
	if err != nil {
		return nil, err
	}
	s := &attServer{addr: l.Addr().String(), recs: make(chan *attRec, 64)}
	_ = l.Close()
	srv := attachment.New(attachment.WithHostPorts(s.addr), attachment.WithNetwork("tcp"),
		attachment.WithActiveSafetyType(consts.ActiveSafetyType(dialect)),
		attachment.WithFileEventerFunc(func() attachment.FileEventer {
			r := &attRec{quit: make(chan struct{})}
			s.recs <- r
			return r
		}))
	go srv.Run()
	for i := 0; i < 100; i++ {
		c, err := net.Dial("tcp", s.addr)
		if err == nil {
			_ = c.Close()
			r := <-s.recs // the probe connection's recorder
			<-r.quit
			attServers[dialect] = s
			return s, nil
		}
		time.Sleep(20 * time.Millisecond)
	}
	return nil, errors.New("cannot reach the real attachment server")
}

// playAttachment returns "" (identical), "SKIP:..." (no loopback), "TIMEOUT:..." (the server did not get as far as
// expected within a generous wall-clock limit: inconclusive) or a description of a difference in content.
func playAttachment(tr trace) string {
	s, err := attServerFor(tr.Dialect)
	if err != nil {
		return "SKIP:" + err.Error()
	}
	c, err := net.Dial("tcp", s.addr)
	if err != nil {
		return "TIMEOUT:" + err.Error()
	}
	defer c.Close()
	for i, w := range tr.Writes {
		data, _ := hex.DecodeString(w)
		if _, err := c.Write(data); err != nil {
			return fmt.Sprintf("TIMEOUT:write %d: %v", i, err)
		}
	}
	if tc, ok := c.(*net.TCPConn); ok {
		_ = tc.CloseWrite()
	}
	want, _ := hex.DecodeString(tr.ExpectAll)
	var got []byte
	deadline := time.Now().Add(20 * time.Second)
	for len(got) < len(want) {
		_ = c.SetReadDeadline(deadline)
		buf := make([]byte, 65536)
		n, err := c.Read(buf)
		got = append(got, buf[:n]...)
		if err != nil {
			break
		}
	}
	if !bytes.Equal(got, want) {
		if len(got) < len(want) && bytes.Equal(got, want[:len(got)]) {
			return fmt.Sprintf("TIMEOUT:real attachment server wrote only %d of the %d reply bytes within 20 s", len(got), len(want))
		}
		return fmt.Sprintf("real attachment server wrote %x, virtual run saw %x", got, want)
	}
	// the session has been answered, so its connection was accepted and set up: its FileEventer exists by now
	var rec *attRec
	select {
	case rec = <-s.recs:
	default:
		if len(want) > 0 {
			return "the session was answered but no FileEventer had been created for its connection (the function given to WithFileEventerFunc must be called once per connection)"
		}
		select {
		case rec = <-s.recs:
		case <-time.After(20 * time.Second):
			return "TIMEOUT:no FileEventer created for the connection within 20 s"
		}
	}
	select {
	case <-rec.quit:
	case <-time.After(20 * time.Second):
		return "TIMEOUT:the session's quit event did not reach the FileEventer within 20 s"
	}
	_ = c.SetReadDeadline(time.Now().Add(100 * time.Millisecond))
	buf := make([]byte, 4096)
	if n, _ := c.Read(buf); n > 0 {
		return fmt.Sprintf("real attachment server wrote extra bytes %x", buf[:n])
	}
	rec.mu.Lock()
	defer rec.mu.Unlock()
	var names []string
	for n := range tr.Files {
		names = append(names, n)
	}
	sort.Strings(names)
	if len(rec.files) != len(tr.Files) {
		return fmt.Sprintf("real run ended with %d files, virtual run with %d", len(rec.files), len(tr.Files))
	}
	for _, n := range names {
		w, _ := hex.DecodeString(tr.Files[n])
		if !bytes.Equal(rec.files[n], w) {
			return fmt.Sprintf("file %q: real run assembled %x, virtual run %x", n, rec.files[n], w)
		}
	}
	return ""
}

func main() {
	if len(os.Args) < 2 {
		fmt.Println("usage: confb traces.json")
		os.Exit(2)
	}
	slog.SetDefault(slog.New(slog.NewTextHandler(io.Discard, &slog.HandlerOptions{Level: slog.Level(100)})))
	b, err := os.ReadFile(os.Args[1])
	if err != nil {
		fmt.Println("confb:", err)
		os.Exit(2)
	}
	var traces []trace
	if err := json.Unmarshal(b, &traces); err != nil {
		fmt.Println("confb:", err)
		os.Exit(2)
	}
	if len(traces) > 0 && traces[0].Server == "attachment" {
		ok, bad, slow := 0, 0, 0
		for _, tr := range traces {
			msg := playAttachment(tr)
			switch {
			case len(msg) > 5 && msg[:5] == "SKIP:":
				fmt.Println("confb: loopback not available:", msg[5:])
				os.Exit(3)
			case len(msg) > 8 && msg[:8] == "TIMEOUT:":
				slow++
				fmt.Printf("TIMEOUT %s: %s\n", tr.Name, msg[8:])
			case msg != "":
				bad++
				fmt.Printf("MISMATCH %s: %s\n", tr.Name, msg)
			default:
				ok++
			}
		}
		fmt.Printf("confb attachment sessions=%d identical=%d mismatching=%d inconclusive=%d\n", len(traces), ok, bad, slow)
		if bad > 0 {
			os.Exit(1)
		}
		if slow > 0 {
			os.Exit(4)
		}
		return
	}
	l, err := net.Listen("tcp", "127.0.0.1:0")
	if err != nil {
		fmt.Println("confb: loopback not available:", err)
		os.Exit(3)
	}
	addr := l.Addr().String()
	_ = l.Close()
	srv := service.New(service.WithHostPorts(addr), service.WithNetwork("tcp"))
	go srv.Run()
	var conn net.Conn
	for i := 0; i < 100; i++ {
		conn, err = net.Dial("tcp", addr)
		if err == nil {
			break
		}
		time.Sleep(20 * time.Millisecond)
	}
	if err != nil {
		fmt.Println("confb: cannot reach the real server:", err)
		os.Exit(3)
	}
	_ = conn.Close()
	ok, bad := 0, 0
	for _, tr := range traces {
		// the conversations re-use phone numbers: the previous connection's teardown must have released the key
		// before the next one joins (otherwise the new connection is refused as a duplicate - correctly - and the
		// comparison is meaningless). Decided by asking the server, not by sleeping.
		if key := keyOf(tr); key != "" {
			for i := 0; i < 4000; i++ {
				m := srv.SendActiveMessage(service.NewActiveMessage(key, 0x8104, nil, 50*time.Millisecond))
				if m != nil && errors.Is(m.ExtensionFields.Err, service.ErrNotExistKey) {
					break
				}
				time.Sleep(5 * time.Millisecond)
			}
		}
		if msg := play(addr, tr); msg != "" {
			bad++
			fmt.Printf("MISMATCH %s: %s\n", tr.Name, msg)
		} else {
			ok++
		}
	}
	fmt.Printf("confb conversations=%d identical=%d mismatching=%d\n", len(traces), ok, bad)
	if bad > 0 {
		os.Exit(1)
	}
}

// keyOf: the session key (phone number) of the conversation's first frame.
func keyOf(tr trace) string {
	if len(tr.Steps) == 0 {
		return ""
	}
	data, _ := hex.DecodeString(tr.Steps[0].Send)
	m := jt808.NewJTMessage()
	if err := m.Decode(data); err != nil {
		return ""
	}
	return m.Header.TerminalPhoneNo
}

func play(addr string, tr trace) string {
	c, err := net.Dial("tcp", addr)
	if err != nil {
		return err.Error()
	}
	defer c.Close()
	var pending []byte
	for si, st := range tr.Steps {
		data, _ := hex.DecodeString(st.Send)
		if _, err := c.Write(data); err != nil {
			return fmt.Sprintf("step %d: write: %v", si, err)
		}
		var want []byte
		for _, e := range st.Expect {
			w, _ := hex.DecodeString(e)
			want = append(want, w...)
		}
		deadline := time.Now().Add(20 * time.Second) // generous: only a missing reply ever waits this long
		for len(pending) < len(want) {
			_ = c.SetReadDeadline(deadline)
			buf := make([]byte, 4096)
			n, err := c.Read(buf)
			pending = append(pending, buf[:n]...)
			if err != nil {
				break
			}
		}
		if len(pending) < len(want) || !bytes.Equal(pending[:len(want)], want) {
			return fmt.Sprintf("step %d: real server wrote %x, virtual run saw %x", si, pending, want)
		}
		pending = pending[len(want):]
	}
	// nothing unexpected may follow
	_ = c.SetReadDeadline(time.Now().Add(150 * time.Millisecond))
	buf := make([]byte, 4096)
	if n, _ := c.Read(buf); n > 0 || len(pending) > 0 {
		return fmt.Sprintf("real server wrote extra bytes %x%x", pending, buf[:n])
	}
	return ""
}
