// confb: conformance B. Replays conversations that the model checker executed
// on the virtual socket over REAL loopback TCP against the UN-INSTRUMENTED
// build of /repo/service (this binary is built without the overlay and without
// the verif tag) and compares the bytes the real server writes with the bytes
// observed on the virtual socket. It validates the socket model and the
// rewriter; it decides nothing about the properties.
package main

import (
	"bytes"
	"encoding/hex"
	"encoding/json"
	"errors"
	"fmt"
	"io"
	"log/slog"
	"net"
	"os"
	"time"

	"github.com/cuteLittleDevil/go-jt808/protocol/jt808"
	"github.com/cuteLittleDevil/go-jt808/service"
)

type step struct {
	Send   string   `json:"send_hex"`
	Expect []string `json:"expect_hex"` // frames written by the server after this send, in order
}

type trace struct {
	Name  string `json:"name"`
	Steps []step `json:"steps"`
}

func main() {
	if len(os.Args) < 2 {
		fmt.Println("usage: confb traces.json")
		os.Exit(2)
	}
	slog.SetDefault(slog.New(slog.NewTextHandler(io.Discard, &slog.HandlerOptions{Level: slog.Level(100)})))
	b, err := os.ReadFile(os.Args[1])
	if err != nil {
		fmt.Println("confb:", err)
		os.Exit(2)
	}
	var traces []trace
	if err := json.Unmarshal(b, &traces); err != nil {
		fmt.Println("confb:", err)
		os.Exit(2)
	}
	l, err := net.Listen("tcp", "127.0.0.1:0")
	if err != nil {
		fmt.Println("confb: loopback not available:", err)
		os.Exit(3)
	}
	addr := l.Addr().String()
	_ = l.Close()
	srv := service.New(service.WithHostPorts(addr), service.WithNetwork("tcp"))
	go srv.Run()
	var conn net.Conn
	for i := 0; i < 100; i++ {
		conn, err = net.Dial("tcp", addr)
		if err == nil {
			break
		}
		time.Sleep(20 * time.Millisecond)
	}
	if err != nil {
		fmt.Println("confb: cannot reach the real server:", err)
		os.Exit(3)
	}
	_ = conn.Close()
	ok, bad := 0, 0
	for _, tr := range traces {
		// the conversations re-use phone numbers: the previous connection's teardown must have released the key
		// before the next one joins (otherwise the new connection is refused as a duplicate - correctly - and the
		// comparison is meaningless). Decided by asking the server, not by sleeping.
		if key := keyOf(tr); key != "" {
			for i := 0; i < 4000; i++ {
				m := srv.SendActiveMessage(service.NewActiveMessage(key, 0x8104, nil, 50*time.Millisecond))
				if m != nil && errors.Is(m.ExtensionFields.Err, service.ErrNotExistKey) {
					break
				}
				time.Sleep(5 * time.Millisecond)
			}
		}
		if msg := play(addr, tr); msg != "" {
			bad++
			fmt.Printf("MISMATCH %s: %s\n", tr.Name, msg)
		} else {
			ok++
		}
	}
	fmt.Printf("confb conversations=%d identical=%d mismatching=%d\n", len(traces), ok, bad)
	if bad > 0 {
		os.Exit(1)
	}
}

// keyOf: the session key (phone number) of the conversation's first frame.
func keyOf(tr trace) string {
	if len(tr.Steps) == 0 {
		return ""
	}
	data, _ := hex.DecodeString(tr.Steps[0].Send)
	m := jt808.NewJTMessage()
	if err := m.Decode(data); err != nil {
		return ""
	}
	return m.Header.TerminalPhoneNo
}

func play(addr string, tr trace) string {
	c, err := net.Dial("tcp", addr)
	if err != nil {
		return err.Error()
	}
	defer c.Close()
	var pending []byte
	for si, st := range tr.Steps {
		data, _ := hex.DecodeString(st.Send)
		if _, err := c.Write(data); err != nil {
			return fmt.Sprintf("step %d: write: %v", si, err)
		}
		var want []byte
		for _, e := range st.Expect {
			w, _ := hex.DecodeString(e)
			want = append(want, w...)
		}
		deadline := time.Now().Add(20 * time.Second) // generous: only a missing reply ever waits this long
		for len(pending) < len(want) {
			_ = c.SetReadDeadline(deadline)
			buf := make([]byte, 4096)
			n, err := c.Read(buf)
			pending = append(pending, buf[:n]...)
			if err != nil {
				break
			}
		}
		if len(pending) < len(want) || !bytes.Equal(pending[:len(want)], want) {
			return fmt.Sprintf("step %d: real server wrote %x, virtual run saw %x", si, pending, want)
		}
		pending = pending[len(want):]
	}
	// nothing unexpected may follow
	_ = c.SetReadDeadline(time.Now().Add(150 * time.Millisecond))
	buf := make([]byte, 4096)
	if n, _ := c.Read(buf); n > 0 || len(pending) > 0 {
		return fmt.Sprintf("real server wrote extra bytes %x%x", pending, buf[:n])
	}
	return ""
}
