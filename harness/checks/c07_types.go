package checks

import (
	"fmt"
	"reflect"
	"strconv"
	"strings"

	"github.com/cuteLittleDevil/go-jt808/protocol/model"
	"github.com/cuteLittleDevil/go-jt808/shared/consts"
	"verif/harness/ref"
)

// Generators: one per two-way message type (and variant). Every generator
// asks the picker for the same dimensions in the same order on every call.

// gbkLen: number of bytes of a STRING on the wire.
func c07GBKLen(s string) int {
	b, ok := ref.GBK07(s)
	if !ok {
		panic("c07: text without GBK bytes in the table: " + s)
	}
	return len(b)
}

// ---------------------------------------------------------------- dialects

type c07Dialect struct {
	name    string
	typ     consts.ActiveSafetyType
	idLen   int // terminal ID width inside the alarm identification
	reserve int // reserved bytes at the end of the alarm identification
	outerID int // width of 0x1210's leading terminal ID (0: the dialect has none)
	hasRef  bool
}

// JS (Su-biao table 4-16: 7+6+1+1+1 = 16) and GD (Yue-biao: 30+6+1+1+2 = 40)
// are written from the standards; for HLJ, HN and SC the widths are the ones
// the repository documents (38, 32, 39 bytes) and no reference is claimed.
var c07Dialects = []c07Dialect{
	{"JS", consts.ActiveSafetyJS, 7, 1, 7, true},
	{"HLJ", consts.ActiveSafetyHLJ, 30, 0, 0, false},
	{"GD", consts.ActiveSafetyGD, 30, 2, 30, true},
	{"HN", consts.ActiveSafetyHN, 7, 17, 7, false},
	{"SC", consts.ActiveSafetySC, 30, 1, 30, false},
}

func c07DialectOf(t consts.ActiveSafetyType) *c07Dialect {
	for i := range c07Dialects {
		if c07Dialects[i].typ == t {
			return &c07Dialects[i]
		}
	}
	return nil
}

func c07Sign(g *c07Pick, d c07Dialect) model.P9208AlarmSign {
	return model.P9208AlarmSign{
		TerminalID:       g.fixed("P9208AlarmSign.TerminalID", d.idLen),
		Time:             g.tm("P9208AlarmSign.Time"),
		SerialNumber:     g.u8("P9208AlarmSign.SerialNumber"),
		AttachNumber:     g.u8("P9208AlarmSign.AttachNumber"),
		AlarmReserve:     g.pad("P9208AlarmSign.AlarmReserve", d.reserve),
		ActiveSafetyType: d.typ,
	}
}

// ---------------------------------------------------------------- location

func c07Loc(g *c07Pick, p string) model.T0x0200LocationItem {
	return model.T0x0200LocationItem{
		AlarmSign:  g.u32(p + "AlarmSign"),
		StatusSign: g.u32(p + "StatusSign"),
		Latitude:   g.u32(p + "Latitude"),
		Longitude:  g.u32(p + "Longitude"),
		Altitude:   g.u16(p + "Altitude"),
		Speed:      g.u16(p + "Speed"),
		Direction:  g.u16(p + "Direction"),
		DateTime:   g.tm(p + "DateTime"),
	}
}

func c07LocRot(vr, k int) model.T0x0200LocationItem {
	return model.T0x0200LocationItem{
		AlarmSign:  c07RotU32(vr, k, 0),
		StatusSign: c07RotU32(vr, k, 1),
		Latitude:   c07RotU32(vr, k, 2),
		Longitude:  c07RotU32(vr, k, 3),
		Altitude:   c07RotU16(vr, k, 0),
		Speed:      c07RotU16(vr, k, 1),
		Direction:  c07RotU16(vr, k, 2),
		DateTime:   c07RotTime(vr, k, 0),
	}
}

// ---------------------------------------------------------------- terminal parameters

// c07ParamField: parameter ID -> index of the struct field that is named
// after it (T0x<3 hex digits>...).
var c07ParamField = func() map[uint32]int {
	m := map[uint32]int{}
	t := reflect.TypeOf(model.TerminalParamDetails{})
	for i := 0; i < t.NumField(); i++ {
		n := t.Field(i).Name
		if strings.HasPrefix(n, "T0x") && len(n) >= 6 {
			if id, err := strconv.ParseUint(n[3:6], 16, 32); err == nil {
				m[uint32(id)] = i
			}
		}
	}
	return m
}()

// c07ParamIDs: every ID of the standard's table, then reserved and vendor
// IDs; c07ParamIDsAll adds every remaining ID up to 0x1FF (single sweep).
var c07StdParams = ref.StandardParams07()

var c07ParamIDs, c07ParamIDsAll = func() ([]uint32, []uint32) {
	ids := ref.StandardParams07()
	ids = append(ids, 0x0000, 0x0008, 0x002A, 0x002B, 0x0075, 0x0076, 0x0077, 0x0079, 0x007A, 0x007B, 0x007C,
		0xF000, 0xF364, 0xF365, 0xFFFF, 0x00010001, 0xFFFFFFFF)
	seen := map[uint32]bool{}
	for _, id := range ids {
		seen[id] = true
	}
	all := append([]uint32(nil), ids...)
	for id := uint32(0); id <= 0x1FF; id++ {
		if !seen[id] {
			all = append(all, id)
		}
	}
	return ids, all
}()

// c07ParamValue: the vr-th menu value of parameter id, in the standard's type.
func c07ParamValue(id uint32, vr int) (kind ref.ParamKind07, num uint64, text string, raw []byte) {
	kind = ref.ParamKindOf07(id)
	switch kind {
	case ref.ParamDWORD07:
		num = []uint64{1, 0xFFFFFFFF, 0, 0x7D7E0102}[vr]
	case ref.ParamWORD07:
		num = []uint64{1, 0xFFFF, 0, 0x7D7E}[vr]
	case ref.ParamBYTE07:
		num = []uint64{1, 0xFF, 0, 0x7D}[vr]
	case ref.ParamSTRING07:
		text = []string{"a", "测试", "", c07Pattern[:255]}[vr]
	case ref.ParamBYTES4_07:
		raw = [][]byte{{0x16, 0x32, 0x0A, 0x1E}, {0xFF, 0xFF, 0xFF, 0xFF}, {0, 0, 0, 0}, {0x7D, 0x7E, 0x01, 0x02}}[vr]
	case ref.ParamBYTES8_07:
		raw = [][]byte{{0, 0, 0x03, 0xE8, 0x98, 0xF0, 0x04, 0x00}, {0xFF, 0xFF, 0xFF, 0xFF, 0xFF, 0xFF, 0xFF, 0xFF}, {0, 0, 0, 0, 0, 0, 0, 0}, {0x7D, 0x7E, 1, 2, 3, 4, 5, 6}}[vr]
	default:
		raw = [][]byte{{0, 0, 0, 1}, {0xFF}, {}, []byte(c07Pattern[:255])}[vr]
	}
	return
}

// c07SetParam stores the value where the library keeps parameter id: in the
// field named after the ID, else in OtherContent.
func c07SetParam(d *model.TerminalParamDetails, id uint32, vr int) bool {
	kind, num, text, raw := c07ParamValue(id, vr)
	fi, named := c07ParamField[id]
	if id == 0 && kind == ref.ParamUnknown07 && len(raw) == 0 {
		return false // ID 0 with length 0 is how the library represents "parameter not set"
	}
	if !named {
		switch kind {
		case ref.ParamDWORD07:
			raw = []byte{byte(num >> 24), byte(num >> 16), byte(num >> 8), byte(num)}
		case ref.ParamWORD07:
			raw = []byte{byte(num >> 8), byte(num)}
		case ref.ParamBYTE07:
			raw = []byte{byte(num)}
		case ref.ParamSTRING07:
			raw, _ = ref.GBK07(text)
		}
		if d.OtherContent == nil {
			d.OtherContent = map[uint32]model.ParamContent[[]byte]{}
		}
		d.OtherContent[id] = model.ParamContent[[]byte]{ID: id, Len: byte(len(raw)), Value: append([]byte{}, raw...)}
		return true
	}
	f := reflect.ValueOf(d).Elem().Field(fi)
	val := f.FieldByName("Value")
	n := ref.ParamLen07(kind)
	switch val.Kind() {
	case reflect.Uint8, reflect.Uint16, reflect.Uint32:
		if kind != ref.ParamDWORD07 && kind != ref.ParamWORD07 && kind != ref.ParamBYTE07 {
			return false
		}
		val.SetUint(num & (1<<(8*uint(val.Type().Size())) - 1))
	case reflect.String:
		if kind != ref.ParamSTRING07 {
			return false
		}
		val.SetString(text)
		n = c07GBKLen(text)
	case reflect.Array:
		if len(raw) != val.Len() {
			return false
		}
		for i := range raw {
			val.Index(i).SetUint(uint64(raw[i]))
		}
	default:
		return false
	}
	f.FieldByName("ID").SetUint(uint64(id))
	f.FieldByName("Len").SetUint(uint64(n))
	return true
}

// c07Params builds a parameter list: parameter A, parameter B, bulk filler.
func c07Params(g *c07Pick) (d model.TerminalParamDetails, count int, ok bool) {
	na := len(c07ParamIDs) + 1
	ia := g.next("paramA.id", na, len(c07ParamIDsAll)+1, nil)
	va := g.next("paramA.value", 3, 4, func(i int) bool { return i == 1 || i == 3 })
	ib := g.next("paramB.id", na, na, nil)
	vb := g.next("paramB.value", 3, 4, func(i int) bool { return i == 1 || i == 3 })
	bulk := g.next("bulk", 3, 3, func(i int) bool { return i > 0 })
	if g.record {
		return d, 0, true
	}
	if (ia == 0 && va != 0) || (ib == 0 && vb != 0) || (ia != 0 && ia == ib) || (ia == 0 && ib != 0) || (ib != 0 && bulk != 0) {
		return d, 0, false // same list as another combination, the same ID twice, or filler together with a pair
	}
	used := map[uint32]bool{}
	if ia > 0 {
		id := c07ParamIDsAll[ia-1]
		if !c07SetParam(&d, id, va) {
			return d, 0, false
		}
		used[id] = true
		count++
	}
	if ib > 0 {
		id := c07ParamIDs[ib-1]
		if !c07SetParam(&d, id, vb) {
			return d, 0, false
		}
		used[id] = true
		count++
	}
	if bulk > 0 {
		for _, id := range c07StdParams {
			if !used[id] && c07SetParam(&d, id, 0) {
				used[id] = true
				count++
			}
		}
	}
	if bulk == 2 {
		for id := uint32(0xF100); count < 255; id++ {
			if !used[id] && c07SetParam(&d, id, 0) {
				count++
			}
		}
	}
	return d, count, true
}

func c07ParamShape(d *model.TerminalParamDetails) string {
	n, zero := 0, false
	rv := reflect.ValueOf(d).Elem()
	for _, fi := range c07ParamField {
		f := rv.Field(fi)
		if f.FieldByName("ID").Uint() != 0 {
			n++
			if f.FieldByName("Len").Uint() == 0 {
				zero = true
			}
		}
	}
	for _, c := range d.OtherContent {
		n++
		if c.Len == 0 {
			zero = true
		}
	}
	if n == 0 {
		return "no items"
	}
	return fmt.Sprintf("zero-length-item=%v", zero)
}

// ---------------------------------------------------------------- the types

var c07SpecList []*c07Spec

func c07Specs() []*c07Spec {
	if c07SpecList != nil {
		return c07SpecList
	}
	var out []*c07Spec
	add := func(typ, variant string, ver consts.ProtocolVersionType, blank func() c07Msg, build func(g *c07Pick) c07Msg) *c07Spec {
		sp := &c07Spec{typ: typ, variant: variant, ver: ver, blank: blank, build: build}
		out = append(out, sp)
		return sp
	}
	v13 := consts.JT808Protocol2013

	add("T0x0001", "", v13, func() c07Msg { return &model.T0x0001{} }, func(g *c07Pick) c07Msg {
		return &model.T0x0001{SerialNumber: g.u16("SerialNumber"), ID: g.u16("ID"), Result: g.u8("Result")}
	})
	add("T0x0002", "", v13, func() c07Msg { return &model.T0x0002{} }, func(g *c07Pick) c07Msg { return &model.T0x0002{} })

	for _, vv := range []struct {
		name          string
		ver           consts.ProtocolVersionType
		mLen, tLen, i int
	}{{"2011", consts.JT808Protocol2011, 5, 8, 7}, {"2013", consts.JT808Protocol2013, 5, 20, 7}, {"2019", consts.JT808Protocol2019, 11, 30, 30}} {
		vv := vv
		add("T0x0100", vv.name, vv.ver, func() c07Msg { return &model.T0x0100{} }, func(g *c07Pick) c07Msg {
			return &model.T0x0100{
				ProvinceID:         g.u16("ProvinceID"),
				CityID:             g.u16("CityID"),
				ManufacturerID:     g.fixed("ManufacturerID", vv.mLen),
				TerminalModel:      g.fixed("TerminalModel", vv.tLen),
				TerminalID:         g.fixed("TerminalID", vv.i),
				PlateColor:         g.u8("PlateColor"),
				LicensePlateNumber: g.plate("LicensePlateNumber"),
				Version:            vv.ver,
			}
		})
	}
	add("T0x0102", "2013", v13, func() c07Msg { return &model.T0x0102{} }, func(g *c07Pick) c07Msg {
		return &model.T0x0102{AuthCode: g.tail("AuthCode"), Version: consts.JT808Protocol2013}
	})
	add("T0x0102", "2019", consts.JT808Protocol2019, func() c07Msg { return &model.T0x0102{} }, func(g *c07Pick) c07Msg {
		code := g.lstr("AuthCode")
		return &model.T0x0102{
			AuthCodeLen:     byte(c07GBKLen(code)),
			AuthCode:        code,
			TerminalIMEI:    []string{"860123456789012", "", "a", "86012345678901"}[g.next("TerminalIMEI", 1, 4, nil)],
			SoftwareVersion: g.fixed("SoftwareVersion", 20),
			Version:         consts.JT808Protocol2019,
		}
	})

	add("T0x0200", "", v13, func() c07Msg { return &model.T0x0200{} }, func(g *c07Pick) c07Msg {
		return &model.T0x0200{T0x0200LocationItem: c07Loc(g, "")}
	})
	add("T0x0704", "", v13, func() c07Msg { return &model.T0x0704{} }, func(g *c07Pick) c07Msg {
		t := &model.T0x0704{LocationType: g.u8("LocationType")}
		n := g.n("Items", 1, false) // the standard demands at least one item
		vr := g.variant("items.variant", 9)
		for k := 0; k < n; k++ {
			t.Items = append(t.Items, model.T0x0704LocationItem{Len: 28, T0x0200LocationItem: c07LocRot(vr, k)})
		}
		t.Num = uint16(n)
		return t
	})
	add("T0x0800", "", v13, func() c07Msg { return &model.T0x0800{} }, func(g *c07Pick) c07Msg {
		return &model.T0x0800{MultimediaID: g.u32("MultimediaID"), MultimediaType: g.u8("MultimediaType"),
			MultimediaFormatEncode: g.u8("MultimediaFormatEncode"), EventItemEncode: g.u8("EventItemEncode"), ChannelID: g.u8("ChannelID")}
	})
	add("T0x0801", "", v13, func() c07Msg { return &model.T0x0801{} }, func(g *c07Pick) c07Msg {
		return &model.T0x0801{MultimediaID: g.u32("MultimediaID"), MultimediaType: g.u8("MultimediaType"),
			MultimediaFormatEncode: g.u8("MultimediaFormatEncode"), EventItemEncode: g.u8("EventItemEncode"), ChannelID: g.u8("ChannelID"),
			T0x0200LocationItem: c07Loc(g, "T0x0200LocationItem."), MultimediaPackage: g.blob("MultimediaPackage")}
	})
	add("T0x0805", "", v13, func() c07Msg { return &model.T0x0805{} }, func(g *c07Pick) c07Msg {
		t := &model.T0x0805{RespondSerialNumber: g.u16("RespondSerialNumber"), Result: g.u8("Result")}
		n := g.n("MultimediaIDList", 0, true)
		vr := g.variant("list.variant", len(c07U32m))
		for k := 0; k < n; k++ {
			t.MultimediaIDList = append(t.MultimediaIDList, c07RotU32(vr, k, 0))
		}
		t.MultimediaIDNumber = uint16(n)
		return t
	})
	add("T0x1003", "", v13, func() c07Msg { return &model.T0x1003{} }, func(g *c07Pick) c07Msg {
		return &model.T0x1003{
			EnterAudioEncoding: g.u8("EnterAudioEncoding"), EnterAudioChannelsNumber: g.u8("EnterAudioChannelsNumber"),
			EnterAudioSampleRate: g.u8("EnterAudioSampleRate"), EnterAudioSampleDigits: g.u8("EnterAudioSampleDigits"),
			AudioFrameLength: g.u16("AudioFrameLength"), HasSupportedAudioOutput: g.u8("HasSupportedAudioOutput"), VideoEncoding: g.u8("VideoEncoding"),
			TerminalSupportedMaxNumberOfAudioPhysicalChannels: g.u8("TerminalSupportedMaxNumberOfAudioPhysicalChannels"),
			TerminalSupportedMaxNumberOfVideoPhysicalChannels: g.u8("TerminalSupportedMaxNumberOfVideoPhysicalChannels"),
		}
	})
	add("T0x1005", "", v13, func() c07Msg { return &model.T0x1005{} }, func(g *c07Pick) c07Msg {
		return &model.T0x1005{StartTime: g.tm("StartTime"), EndTime: g.tm("EndTime"), BoardNumber: g.u16("BoardNumber"), AlightNumber: g.u16("AlightNumber")}
	})
	add("T0x1205", "", v13, func() c07Msg { return &model.T0x1205{} }, func(g *c07Pick) c07Msg {
		t := &model.T0x1205{SerialNumber: g.u16("SerialNumber")}
		n := g.n("AudioVideoResourceList", 0, false)
		vr := g.variant("list.variant", 9)
		for k := 0; k < n; k++ {
			t.AudioVideoResourceList = append(t.AudioVideoResourceList, model.T0x1205AudioVideoResource{
				ChannelNo: c07RotU8(vr, k, 0), StartTime: c07RotTime(vr, k, 0), EndTime: c07RotTime(vr, k, 1), AlarmFlag: c07RotU64(vr, k, 0),
				AudioVideoResourceType: c07RotU8(vr, k, 1), StreamType: c07RotU8(vr, k, 2), MemoryType: c07RotU8(vr, k, 3), FileSizeByte: c07RotU32(vr, k, 0),
			})
		}
		t.AudioVideoResourceTotal = uint32(n)
		return t
	})
	add("T0x1206", "", v13, func() c07Msg { return &model.T0x1206{} }, func(g *c07Pick) c07Msg {
		return &model.T0x1206{RespondSerialNumber: g.u16("RespondSerialNumber"), Result: g.u8("Result")}
	})
	// file names of list items rotate through ordinary names; the empty name
	// is a dimension of its own under the JS dialect only (the dialects differ
	// in the alarm identification, not in the list)
	names := []string{"a", "01_65_6501_0_ad72131579e54be0b0f737cfc72c5db8.jpg", c07Pattern[:255], "b.bin"}
	edgeNames := []string{""}
	for _, d := range c07Dialects {
		d := d
		blank := func() c07Msg {
			return &model.T0x1210{P9208AlarmSign: model.P9208AlarmSign{ActiveSafetyType: d.typ}}
		}
		sp := add("T0x1210", d.name, v13, blank, func(g *c07Pick) c07Msg {
			t := &model.T0x1210{}
			if d.outerID > 0 {
				t.TerminalID = g.fixed("TerminalID", d.outerID)
			}
			t.P9208AlarmSign = c07Sign(g, d)
			t.AlarmID = g.fixed("AlarmID", 32)
			t.InfoType = g.u8("InfoType")
			n := g.n("T0x1210AlarmItemList", 0, false)
			vr := g.variant("list.variant", 6)
			edge := 0
			if d.name == "JS" {
				edge = g.next("last item's FileName", 1, 1+len(edgeNames), func(i int) bool { return i > 0 })
			}
			if edge > 0 && n == 0 {
				n = 1
			}
			for k := 0; k < n; k++ {
				name := names[(vr+k)%len(names)]
				if edge > 0 && k == n-1 {
					name = edgeNames[edge-1]
				}
				t.T0x1210AlarmItemList = append(t.T0x1210AlarmItemList, model.T0x1210AlarmItem{
					FileNameLen: byte(c07GBKLen(name)), FileName: name, FileSize: c07RotU32(vr, k, 0)})
			}
			t.AttachCount = byte(n)
			return t
		})
		sp.dialect = d.typ
	}
	add("T0x1211", "", v13, func() c07Msg { return &model.T0x1211{} }, func(g *c07Pick) c07Msg {
		name := g.lstr("FileName")
		return &model.T0x1211{FileNameLen: byte(c07GBKLen(name)), FileName: name, FileType: g.u8("FileType"), FileSize: g.u32("FileSize")}
	})

	add("P0x8001", "", v13, func() c07Msg { return &model.P0x8001{} }, func(g *c07Pick) c07Msg {
		return &model.P0x8001{RespondSerialNumber: g.u16("RespondSerialNumber"), RespondID: g.u16("RespondID"), Result: g.u8("Result")}
	})
	add("P0x8003", "", v13, func() c07Msg { return &model.P0x8003{} }, func(g *c07Pick) c07Msg {
		p := &model.P0x8003{OriginalSerialNumber: g.u16("OriginalSerialNumber")}
		n := g.n("AgainPackageList", 0, true)
		vr := g.variant("list.variant", len(c07U16m))
		for k := 0; k < n; k++ {
			p.AgainPackageList = append(p.AgainPackageList, c07RotU16(vr, k, 0))
		}
		p.AgainPackageCount = byte(n)
		return p
	})
	add("P0x8100", "", v13, func() c07Msg { return &model.P0x8100{} }, func(g *c07Pick) c07Msg {
		return &model.P0x8100{RespondSerialNumber: g.u16("RespondSerialNumber"), Result: g.u8("Result"), AuthCode: g.tail("AuthCode")}
	})
	sp := add("P0x8103", "", v13, func() c07Msg { return &model.P0x8103{} }, func(g *c07Pick) c07Msg {
		d, n, ok := c07Params(g)
		if !ok {
			return nil
		}
		return &model.P0x8103{ParamTotal: byte(n), TerminalParamDetails: d}
	})
	sp.shape = func(v c07Msg) string { return c07ParamShape(&v.(*model.P0x8103).TerminalParamDetails) }
	add("P0x8104", "", v13, func() c07Msg { return &model.P0x8104{} }, func(g *c07Pick) c07Msg { return &model.P0x8104{} })
	add("P0x8800", "", v13, func() c07Msg { return &model.P0x8800{} }, func(g *c07Pick) c07Msg {
		p := &model.P0x8800{MultimediaID: g.u32("MultimediaID")}
		n := g.n("AgainPackageList", 0, true)
		vr := g.variant("list.variant", len(c07U16m))
		for k := 0; k < n; k++ {
			p.AgainPackageList = append(p.AgainPackageList, c07RotU16(vr, k, 0))
		}
		p.AgainPackageCount = byte(n)
		return p
	})
	add("P0x8801", "", v13, func() c07Msg { return &model.P0x8801{} }, func(g *c07Pick) c07Msg {
		return &model.P0x8801{ChannelID: g.u8("ChannelID"), ShootCommand: g.u16("ShootCommand"), PhotoIntervalOrVideoTime: g.u16("PhotoIntervalOrVideoTime"),
			SaveFlag: g.u8("SaveFlag"), Resolution: g.u8("Resolution"), VideoQuality: g.u8("VideoQuality"), Intensity: g.u8("Intensity"),
			Contrast: g.u8("Contrast"), Saturation: g.u8("Saturation"), Chroma: g.u8("Chroma")}
	})
	add("P0x9003", "", v13, func() c07Msg { return &model.P0x9003{} }, func(g *c07Pick) c07Msg { return &model.P0x9003{} })
	add("P0x9101", "", v13, func() c07Msg { return &model.P0x9101{} }, func(g *c07Pick) c07Msg {
		ip := g.lstrA("ServerIPAddr")
		return &model.P0x9101{ServerIPLen: byte(c07GBKLen(ip)), ServerIPAddr: ip, TcpPort: g.u16("TcpPort"), UdpPort: g.u16("UdpPort"),
			ChannelNo: g.u8("ChannelNo"), DataType: g.u8("DataType"), StreamType: g.u8("StreamType")}
	})
	add("P0x9102", "", v13, func() c07Msg { return &model.P0x9102{} }, func(g *c07Pick) c07Msg {
		return &model.P0x9102{ChannelNo: g.u8("ChannelNo"), ControlCmd: g.u8("ControlCmd"), CloseAudioVideoData: g.u8("CloseAudioVideoData"), StreamType: g.u8("StreamType")}
	})
	add("P0x9105", "", v13, func() c07Msg { return &model.P0x9105{} }, func(g *c07Pick) c07Msg {
		return &model.P0x9105{ChannelNo: g.u8("ChannelNo"), PackageLossRate: g.u8("PackageLossRate")}
	})
	add("P0x9201", "", v13, func() c07Msg { return &model.P0x9201{} }, func(g *c07Pick) c07Msg {
		ip := g.lstrA("ServerIPAddr")
		return &model.P0x9201{ServerIPLen: byte(c07GBKLen(ip)), ServerIPAddr: ip, TcpPort: g.u16("TcpPort"), UdpPort: g.u16("UdpPort"),
			ChannelNo: g.u8("ChannelNo"), MediaType: g.u8("MediaType"), StreamType: g.u8("StreamType"), MemoryType: g.u8("MemoryType"),
			PlaybackWay: g.u8("PlaybackWay"), PlaySpeed: g.u8("PlaySpeed"), StartTime: g.tm("StartTime"), EndTime: g.tm("EndTime")}
	})
	add("P0x9202", "", v13, func() c07Msg { return &model.P0x9202{} }, func(g *c07Pick) c07Msg {
		return &model.P0x9202{ChannelNo: g.u8("ChannelNo"), PlayControl: g.u8("PlayControl"), PlaySpeed: g.u8("PlaySpeed"), DateTime: g.tm("DateTime")}
	})
	add("P0x9205", "", v13, func() c07Msg { return &model.P0x9205{} }, func(g *c07Pick) c07Msg {
		return &model.P0x9205{ChannelNo: g.u8("ChannelNo"), StartTime: g.tm("StartTime"), EndTime: g.tm("EndTime"), AlarmFlag: g.u64("AlarmFlag"),
			MediaType: g.u8("MediaType"), StreamType: g.u8("StreamType"), StorageType: g.u8("StorageType")}
	})
	add("P0x9206", "", v13, func() c07Msg { return &model.P0x9206{} }, func(g *c07Pick) c07Msg {
		addr, user, pass, path := g.lstrA("FTPAddr"), g.lstr("Username"), g.lstr("Password"), g.lstr("FileUploadPath")
		return &model.P0x9206{FTPAddrLen: byte(c07GBKLen(addr)), FTPAddr: addr, Port: g.u16("Port"),
			UsernameLen: byte(c07GBKLen(user)), Username: user, PasswordLen: byte(c07GBKLen(pass)), Password: pass,
			FileUploadPathLen: byte(c07GBKLen(path)), FileUploadPath: path,
			ChannelNo: g.u8("ChannelNo"), StartTime: g.tm("StartTime"), EndTime: g.tm("EndTime"), AlarmFlag: g.u64("AlarmFlag"),
			MediaType: g.u8("MediaType"), StreamType: g.u8("StreamType"), MemoryPosition: g.u8("MemoryPosition"), TaskExecuteCondition: g.u8("TaskExecuteCondition")}
	})
	add("P0x9207", "", v13, func() c07Msg { return &model.P0x9207{} }, func(g *c07Pick) c07Msg {
		return &model.P0x9207{RespondSerialNumber: g.u16("RespondSerialNumber"), UploadControl: g.u8("UploadControl")}
	})
	for _, d := range c07Dialects {
		d := d
		blank := func() c07Msg {
			return &model.P0x9208{P9208AlarmSign: model.P9208AlarmSign{ActiveSafetyType: d.typ}}
		}
		sp := add("P0x9208", d.name, v13, blank, func(g *c07Pick) c07Msg {
			ip := g.lstrA("ServerAddr")
			return &model.P0x9208{ServerIPLen: byte(c07GBKLen(ip)), ServerAddr: ip, TcpPort: g.u16("TcpPort"), UdpPort: g.u16("UdpPort"),
				P9208AlarmSign: c07Sign(g, d), AlarmID: g.fixed("AlarmID", 32), Reserve: g.pad("Reserve", 16)}
		})
		sp.dialect = d.typ
	}
	add("P0x9212", "", v13, func() c07Msg { return &model.P0x9212{} }, func(g *c07Pick) c07Msg {
		name := g.lstr("FileName")
		p := &model.P0x9212{FileNameLen: byte(c07GBKLen(name)), FileName: name, FileType: g.u8("FileType"), UploadResult: g.u8("UploadResult")}
		n := g.n("P0x9212RetransmitPacketList", 0, false)
		vr := g.variant("list.variant", len(c07U32m))
		for k := 0; k < n; k++ {
			p.P0x9212RetransmitPacketList = append(p.P0x9212RetransmitPacketList, model.P0x9212RetransmitPacket{DataOffset: c07RotU32(vr, k, 0), DataLength: c07RotU32(vr, k, 1)})
		}
		p.RetransmitPacketNumber = byte(n)
		return p
	})
	// 0x0104: the Encode method is a stub, so Parse is run on the reference body; last in the list
	sp = add("T0x0104", "", v13, func() c07Msg { return &model.T0x0104{} }, func(g *c07Pick) c07Msg {
		d, n, ok := c07Params(g)
		if !ok {
			return nil
		}
		return &model.T0x0104{RespondSerialNumber: c07U16m[n%len(c07U16m)], RespondParamCount: byte(n), TerminalParamDetails: d}
	})
	sp.parseOnly = true
	sp.shape = func(v c07Msg) string { return c07ParamShape(&v.(*model.T0x0104).TerminalParamDetails) }

	c07SpecList = out
	return out
}
