package checks

import (
	"encoding/json"
	"fmt"
	"os"
	"reflect"
	"regexp"
	"sort"
	"strings"
	"sync/atomic"
	"time"

	"github.com/cuteLittleDevil/go-jt808/protocol/jt1078"
	"github.com/cuteLittleDevil/go-jt808/protocol/jt808"
	"github.com/cuteLittleDevil/go-jt808/protocol/model"
	"github.com/cuteLittleDevil/go-jt808/shared/consts"
	"verif/harness/ref"
	"verif/harness/vc"
)

// C03 - decoders are total functions of their input (E2).

type c03Subject struct {
	Name  string
	ID    uint16
	New   func() any
	Parse func(recv any, body []byte) error
	// ParseOther parses under the OTHER header version (nil when the subject has none): histories are also replayed
	// with the earlier bodies arriving under that version (a connection's handler object sees whatever the peer sends)
	ParseOther func(recv any, body []byte) error
	Seeds      [][]byte
}

type c03Parser interface {
	Parse(*jt808.JTMessage) error
}

func c03Msg(ver consts.ProtocolVersionType, id uint16, body []byte) *jt808.JTMessage {
	m := jt808.NewJTMessage()
	m.Header.ID = id
	m.Header.ProtocolVersion = ver
	m.Header.TerminalPhoneNo = "13800138000"
	if ver == consts.JT808Protocol2019 {
		m.Header.Property.Version = 1
	}
	m.Body = body
	return m
}

// vendorLocation is the README/example pattern: a 0x0200 handler with the five
// vendor extension parsers installed as CustomAdditionContentFunc.
type vendorLocation struct {
	model.T0x0200
	E64 model.T0x0200AdditionExtension0x64
	E65 model.T0x0200AdditionExtension0x65
	E66 model.T0x0200AdditionExtension0x66
	E67 model.T0x0200AdditionExtension0x67
	E70 model.T0x0200AdditionExtension0x70
}

func (l *vendorLocation) Parse(m *jt808.JTMessage) error {
	// the extension objects are only invoked for items that are present; a careful user resets them per message
	l.E64, l.E65, l.E66, l.E67, l.E70 = model.T0x0200AdditionExtension0x64{}, model.T0x0200AdditionExtension0x65{},
		model.T0x0200AdditionExtension0x66{}, model.T0x0200AdditionExtension0x67{}, model.T0x0200AdditionExtension0x70{}
	l.T0x0200.CustomAdditionContentFunc = func(id uint8, content []byte) (model.AdditionContent, bool) {
		switch id {
		case 0x64:
			return l.E64.Parse(id, content)
		case 0x65:
			return l.E65.Parse(id, content)
		case 0x66:
			return l.E66.Parse(id, content)
		case 0x67:
			return l.E67.Parse(id, content)
		case 0x70:
			return l.E70.Parse(id, content)
		}
		return model.AdditionContent{}, false
	}
	return l.T0x0200.Parse(m)
}

func (l *vendorLocation) String() string {
	return l.T0x0200.String() + l.E64.String() + l.E65.String() + l.E66.String() + l.E67.String() + l.E70.String()
}

var c03Dialects = []consts.ActiveSafetyType{consts.ActiveSafetyJS, consts.ActiveSafetyHLJ, consts.ActiveSafetyGD, consts.ActiveSafetyHN, consts.ActiveSafetySC}

func c03Subjects() []c03Subject {
	type ctor struct {
		id   uint16
		name string
		mk   func() c03Parser
	}
	ctors := []ctor{
		{0x0001, "T0x0001", func() c03Parser { return &model.T0x0001{} }},
		{0x0002, "T0x0002", func() c03Parser { return &model.T0x0002{} }},
		{0x0100, "T0x0100", func() c03Parser { return &model.T0x0100{} }},
		{0x0102, "T0x0102", func() c03Parser { return &model.T0x0102{} }},
		{0x0104, "T0x0104", func() c03Parser { return &model.T0x0104{} }},
		{0x0200, "T0x0200", func() c03Parser { return &model.T0x0200{} }},
		{0x0200, "T0x0200+vendor", func() c03Parser { return &vendorLocation{} }},
		{0x0704, "T0x0704", func() c03Parser { return &model.T0x0704{} }},
		{0x0800, "T0x0800", func() c03Parser { return &model.T0x0800{} }},
		{0x0801, "T0x0801", func() c03Parser { return &model.T0x0801{} }},
		{0x0805, "T0x0805", func() c03Parser { return &model.T0x0805{} }},
		{0x1003, "T0x1003", func() c03Parser { return &model.T0x1003{} }},
		{0x1005, "T0x1005", func() c03Parser { return &model.T0x1005{} }},
		{0x1205, "T0x1205", func() c03Parser { return &model.T0x1205{} }},
		{0x1206, "T0x1206", func() c03Parser { return &model.T0x1206{} }},
		{0x1211, "T0x1211", func() c03Parser { return &model.T0x1211{} }},
		{0x1212, "T0x1212", func() c03Parser { return &model.T0x1212{} }},
		{0x8001, "P0x8001", func() c03Parser { return &model.P0x8001{} }},
		{0x8003, "P0x8003", func() c03Parser { return &model.P0x8003{} }},
		{0x8100, "P0x8100", func() c03Parser { return &model.P0x8100{} }},
		{0x8103, "P0x8103", func() c03Parser { return &model.P0x8103{} }},
		{0x8104, "P0x8104", func() c03Parser { return &model.P0x8104{} }},
		{0x8800, "P0x8800", func() c03Parser { return &model.P0x8800{} }},
		{0x8801, "P0x8801", func() c03Parser { return &model.P0x8801{} }},
		{0x9003, "P0x9003", func() c03Parser { return &model.P0x9003{} }},
		{0x9101, "P0x9101", func() c03Parser { return &model.P0x9101{} }},
		{0x9102, "P0x9102", func() c03Parser { return &model.P0x9102{} }},
		{0x9105, "P0x9105", func() c03Parser { return &model.P0x9105{} }},
		{0x9201, "P0x9201", func() c03Parser { return &model.P0x9201{} }},
		{0x9202, "P0x9202", func() c03Parser { return &model.P0x9202{} }},
		{0x9205, "P0x9205", func() c03Parser { return &model.P0x9205{} }},
		{0x9206, "P0x9206", func() c03Parser { return &model.P0x9206{} }},
		{0x9207, "P0x9207", func() c03Parser { return &model.P0x9207{} }},
		{0x9212, "P0x9212", func() c03Parser { return &model.P0x9212{} }},
	}
	for _, d := range c03Dialects {
		d := d
		ctors = append(ctors,
			ctor{0x1210, "T0x1210/" + d.String(), func() c03Parser {
				return &model.T0x1210{P9208AlarmSign: model.P9208AlarmSign{ActiveSafetyType: d}}
			}},
			ctor{0x9208, "P0x9208/" + d.String(), func() c03Parser {
				return &model.P0x9208{P9208AlarmSign: model.P9208AlarmSign{ActiveSafetyType: d}}
			}})
	}
	seeds := c03Seeds()
	var out []c03Subject
	for _, c := range ctors {
		for _, ver := range []consts.ProtocolVersionType{consts.JT808Protocol2013, consts.JT808Protocol2019} {
			c, ver := c, ver
			out = append(out, c03Subject{
				Name: fmt.Sprintf("%s/v%d", c.name, int(ver)), ID: c.id,
				New: func() any { return c.mk() },
				Parse: func(recv any, body []byte) error {
					return recv.(c03Parser).Parse(c03Msg(ver, c.id, body))
				},
				ParseOther: func(recv any, body []byte) error {
					other := consts.JT808Protocol2013
					if ver == consts.JT808Protocol2013 {
						other = consts.JT808Protocol2019
					}
					return recv.(c03Parser).Parse(c03Msg(other, c.id, body))
				},
				Seeds: seeds[c.id],
			})
		}
	}
	// the frame decoder itself and the RTP decoder
	var frames [][]byte
	for _, v19 := range []bool{false, true} {
		for _, frag := range []bool{false, true} {
			h := ref.TermHeader(0x0200, v19, "13800138000", 7)
			h.Fragmented = frag
			if frag {
				h.Total, h.Number = 2, 1
			}
			frames = append(frames, ref.Encode(h, []byte{0x7E, 0x01, 0x7D, 0x02}), ref.Encode(h, nil))
			// escape-free frames of equal length from two different phones (the decoder's fast path aliases its input)
			for _, ph := range []string{"13800138000", "14419999999"} {
				h2 := ref.TermHeader(0x0200, v19, ph, 8)
				h2.Fragmented = frag
				if frag {
					h2.Total, h2.Number = 2, 1
				}
				frames = append(frames, ref.Encode(h2, []byte{0x11, 0x22, 0x33, 0x44}))
			}
		}
	}
	out = append(out, c03Subject{Name: "jt808.JTMessage.Decode", New: func() any { return jt808.NewJTMessage() },
		Parse: func(recv any, b []byte) error { return recv.(*jt808.JTMessage).Decode(b) }, Seeds: frames})
	rtp := [][]byte{
		ref.RTP{Attr: 0x81, MPT: 98, SimBCD: unhx("013800138000"), Channel: 1, DataType: 0, Time: 9, IFrame: 1, Frame: 2, Payload: []byte{1, 2, 3}}.Encode(),
		ref.RTP{Attr: 0x81, MPT: 6, SimBCD: unhx("013800138000"), Channel: 1, DataType: 3, Time: 9, Payload: []byte{1}}.Encode(),
		ref.RTP{Attr: 0x81, MPT: 6, SimBCD: unhx("013800138000"), Channel: 1, DataType: 4, Payload: []byte{9, 9}}.Encode(),
	}
	out = append(out, c03Subject{Name: "jt1078.Packet.Decode", New: func() any { return jt1078.NewPacket() },
		Parse: func(recv any, b []byte) error { _, err := recv.(*jt1078.Packet).Decode(b); return err }, Seeds: rtp})
	return out
}

var reHexFrame = regexp.MustCompile(`"(7e[0-9a-fA-F]{20,}7e)"`)

// c03Seeds harvests valid bodies per message ID from the hex frames in the
// repository's own test files (data only), plus the harness' sample bodies.
func c03Seeds() map[uint16][][]byte {
	out := map[uint16][][]byte{}
	seen := map[string]bool{}
	add := func(id uint16, b []byte) {
		k := fmt.Sprintf("%04x:%x", id, b)
		if !seen[k] && (len(out[id]) < 6 || (id == 0x0200 && len(out[id]) < 10)) {
			seen[k] = true
			out[id] = append(out[id], b)
		}
	}
	for _, f := range []string{"parse_test.go", "reply_test.go", "protocol_test.go", "t_0x0200_addition_extensions_test.go", "t_0x0200_addition_test.go", "t_terminal_params_test.go"} {
		b, err := os.ReadFile(repoRoot() + "/protocol/model/" + f)
		if err != nil {
			continue
		}
		for _, m := range reHexFrame.FindAllSubmatch(b, -1) {
			if fr, err := ref.Decode(unhx(strings.ToLower(string(m[1])))); err == nil {
				add(fr.ID, fr.Body)
			}
		}
	}
	for _, id := range ref.DefaultIDs {
		for _, v := range []bool{false, true} {
			add(id, ref.SampleBody(id, v, "13800138000", 0))
		}
	}
	// location body carrying every standard additional item
	loc := ref.Loc28(1, 3)
	loc = append(loc, unhx("0104000000640202007d030200640402000525040000000a2a0200012b0400000005300119310"+"10a")...)
	loc = append(loc, unhx("110501000000091206010000000901130700000009001001")...)
	loc = append(loc, 0x05, 0x1E)
	loc = append(loc, make([]byte, 30)...)
	loc = append(loc, 0x06, 0x02, 0xFF, 0xE0)
	out[0x0200] = append(out[0x0200], loc)
	// vendor (Su-biao) items 0x64..0x70 at the lengths their parsers accept or nearly accept
	for _, v := range []struct {
		id  byte
		len int
		cnt int // value of byte 40 (0x66 list count), -1 = leave
	}{{0x64, 47, -1}, {0x65, 47, -1}, {0x66, 40, -1}, {0x66, 41, 0}, {0x66, 49, 1}, {0x66, 50, 1}, {0x66, 58, 2}, {0x67, 41, -1}, {0x70, 47, -1}, {0x70, 48, -1}} {
		b := ref.Loc28(0, 1)
		b = append(b, v.id, byte(v.len))
		c := make([]byte, v.len)
		for i := range c {
			c[i] = byte(i + 1)
		}
		if v.cnt >= 0 && v.len > 40 {
			c[40] = byte(v.cnt)
		}
		out[0x0200] = append(out[0x0200], append(b, c...))
	}
	return out
}

// dump renders a value for comparison: func fields skipped, maps sorted,
// nil and empty slices equal, pointers followed.
func c03Dump(v reflect.Value, b *strings.Builder, depth int) {
	if depth > 12 {
		b.WriteString("…")
		return
	}
	switch v.Kind() {
	case reflect.Func, reflect.Chan, reflect.UnsafePointer:
		b.WriteString("·")
	case reflect.Ptr, reflect.Interface:
		if v.IsNil() {
			b.WriteString("nil")
			return
		}
		c03Dump(v.Elem(), b, depth+1)
	case reflect.Struct:
		b.WriteString(v.Type().Name() + "{")
		for i := 0; i < v.NumField(); i++ {
			f := v.Type().Field(i)
			if f.Type.Kind() == reflect.Func {
				continue
			}
			b.WriteString(f.Name + ":")
			c03Dump(v.Field(i), b, depth+1)
			b.WriteString(" ")
		}
		b.WriteString("}")
	case reflect.Slice, reflect.Array:
		if v.Kind() == reflect.Slice && v.Type().Elem().Kind() == reflect.Uint8 {
			fmt.Fprintf(b, "x%x", v.Bytes())
			return
		}
		if v.Kind() == reflect.Slice && v.IsNil() {
			b.WriteString("nil") // a nil list and an empty one differ for the caller (JSON null / [], reflect.DeepEqual)
		}
		b.WriteString("[")
		for i := 0; i < v.Len(); i++ {
			c03Dump(v.Index(i), b, depth+1)
			b.WriteString(",")
		}
		b.WriteString("]")
	case reflect.Map:
		keys := v.MapKeys()
		// sort by the underlying value, never by String(): distinct keys may render alike
		sort.Slice(keys, func(i, j int) bool { return c03KeyLess(keys[i], keys[j]) })
		b.WriteString("map[")
		for _, k := range keys {
			c03Dump(k, b, depth+1)
			b.WriteString(":")
			c03Dump(v.MapIndex(k), b, depth+1)
			b.WriteString(",")
		}
		b.WriteString("]")
	case reflect.String:
		fmt.Fprintf(b, "%q", v.String())
	case reflect.Bool:
		fmt.Fprintf(b, "%v", v.Bool())
	case reflect.Int, reflect.Int8, reflect.Int16, reflect.Int32, reflect.Int64:
		fmt.Fprintf(b, "%d", v.Int())
	case reflect.Uint, reflect.Uint8, reflect.Uint16, reflect.Uint32, reflect.Uint64, reflect.Uintptr:
		fmt.Fprintf(b, "%d", v.Uint())
	default:
		fmt.Fprintf(b, "%v", v)
	}
}

func c03KeyLess(a, b reflect.Value) bool {
	switch a.Kind() {
	case reflect.Int, reflect.Int8, reflect.Int16, reflect.Int32, reflect.Int64:
		return a.Int() < b.Int()
	case reflect.Uint, reflect.Uint8, reflect.Uint16, reflect.Uint32, reflect.Uint64, reflect.Uintptr:
		return a.Uint() < b.Uint()
	case reflect.String:
		return a.String() < b.String()
	}
	return fmt.Sprintf("%#v", a) < fmt.Sprintf("%#v", b)
}

func c03DumpOf(x any) string {
	var b strings.Builder
	c03Dump(reflect.ValueOf(x), &b, 0)
	return b.String()
}

// c03DiffPath walks two values in parallel and returns the path of the first
// difference with indices and map keys removed (stable signature material).
func c03DiffPath(a, b reflect.Value, path string, depth int) string {
	if depth > 12 {
		return ""
	}
	if a.Kind() != b.Kind() {
		return path
	}
	switch a.Kind() {
	case reflect.Func, reflect.Chan, reflect.UnsafePointer:
		return ""
	case reflect.Ptr, reflect.Interface:
		if a.IsNil() || b.IsNil() {
			if a.IsNil() != b.IsNil() {
				return path
			}
			return ""
		}
		return c03DiffPath(a.Elem(), b.Elem(), path, depth+1)
	case reflect.Struct:
		if a.Type() != b.Type() {
			return path
		}
		for i := 0; i < a.NumField(); i++ {
			f := a.Type().Field(i)
			if f.Type.Kind() == reflect.Func {
				continue
			}
			if d := c03DiffPath(a.Field(i), b.Field(i), path+"."+f.Name, depth+1); d != "" {
				return d
			}
		}
		return ""
	case reflect.Slice, reflect.Array:
		if a.Len() != b.Len() {
			return path + "(len)"
		}
		if a.Kind() == reflect.Slice && a.Type().Elem().Kind() != reflect.Uint8 && a.IsNil() != b.IsNil() {
			return path + "(nil)"
		}
		for i := 0; i < a.Len(); i++ {
			if d := c03DiffPath(a.Index(i), b.Index(i), path+"[]", depth+1); d != "" {
				return d
			}
		}
		return ""
	case reflect.Map:
		if a.Len() != b.Len() {
			return path + "(len)"
		}
		for _, k := range a.MapKeys() {
			bv := b.MapIndex(k)
			if !bv.IsValid() {
				return path + "(keys)"
			}
			if d := c03DiffPath(a.MapIndex(k), bv, path+"[]", depth+1); d != "" {
				return d
			}
		}
		return ""
	case reflect.String:
		if a.String() != b.String() {
			return path
		}
	case reflect.Bool:
		if a.Bool() != b.Bool() {
			return path
		}
	case reflect.Int, reflect.Int8, reflect.Int16, reflect.Int32, reflect.Int64:
		if a.Int() != b.Int() {
			return path
		}
	case reflect.Uint, reflect.Uint8, reflect.Uint16, reflect.Uint32, reflect.Uint64, reflect.Uintptr:
		if a.Uint() != b.Uint() {
			return path
		}
	}
	return ""
}

// c03Trunc keeps at most two components of a field path.
func c03Trunc(p string) string {
	parts := strings.Split(strings.TrimPrefix(p, "."), ".")
	if len(parts) > 2 {
		parts = parts[:2]
	}
	if parts[0] == "TerminalParamDetails" {
		parts = parts[:1]
	}
	return "." + strings.Join(parts, ".")
}

// c03Type strips the "/vN" version suffix: signatures name the type (and dialect) only.
func c03Type(name string) string {
	if i := strings.LastIndex(name, "/v"); i > 0 {
		return name[:i]
	}
	return name
}

type c03Outcome struct {
	recv  any
	panic string
	err   string
	dump  string
	str   string
	strP  string
}

var c03Progress atomic.Int64
var c03Current atomic.Value // string: case being run (for the hang watchdog)

func c03Run1(s *c03Subject, recv any, body []byte, withString bool) c03Outcome {
	var o c03Outcome
	c03Progress.Add(1)
	var err error
	o.panic = vc.Catch(func() { err = s.Parse(recv, body) })
	if o.panic != "" {
		return o
	}
	if err != nil {
		o.err = "error"
		return o
	}
	o.dump = c03DumpOf(recv)
	o.recv = recv
	if withString {
		if st, ok := recv.(fmt.Stringer); ok {
			o.strP = vc.Catch(func() { o.str = st.String() })
		}
	}
	return o
}

type c03Case struct {
	Subject string   `json:"subject"`
	Body    string   `json:"body_hex"`
	History []string `json:"history_hex,omitempty"` // bodies parsed earlier by the same receiver
}

// c03Eval runs one case with all oracles. class is the outcome class.
func c03Eval(s *c03Subject, body []byte, history [][]byte) (sig, diag, class string) {
	c03Current.Store(s.Name + ":" + hx2(body))
	// exact capacity
	o := c03Run1(s, s.New(), exact(body), true)
	where := fmt.Sprintf("%s body=%s", s.Name, hx(body))
	if o.panic != "" {
		return c03Type(s.Name) + ":panic:" + vc.PanicSite(o.panic) + ":" + vc.PanicClass(o.panic), "Parse panicked on " + where + ": " + o.panic, "panic"
	}
	if o.strP != "" {
		return c03Type(s.Name) + ":string-panic:" + vc.PanicSite(o.strP), "String() panicked after a successful Parse of " + where + ": " + o.strP, "string-panic"
	}
	if len(o.str) > 65536+64*len(body) {
		return c03Type(s.Name) + ":string-size", fmt.Sprintf("String() returned %d bytes for %s", len(o.str), where), "string-size"
	}
	// the same bytes in buffers with spare capacity holding 0xAA / 0x55
	for _, fill := range []byte{0xAA, 0x55} {
		p := c03Run1(s, s.New(), padded(body, fill, 64), false)
		if p.panic != o.panic || p.err != o.err || p.dump != o.dump {
			fld := ""
			if o.recv != nil && p.recv != nil {
				fld = c03DiffPath(reflect.ValueOf(o.recv), reflect.ValueOf(p.recv), "", 0)
			}
			return c03Type(s.Name) + ":reads-beyond-slice", fmt.Sprintf("outcome depends on memory beyond the slice (%s): first differing field %s; exact-capacity: err=%q %s ; with %02x tail: panic=%q err=%q %s",
				where, fld, o.err, c03Short(o.dump), fill, p.panic, p.err, c03Short(p.dump)), "overread"
		}
	}
	// history independence
	for pass := 0; pass < 2 && len(history) > 0; pass++ {
		parseHist, how := s.Parse, ""
		if pass == 1 {
			if s.ParseOther == nil {
				break
			}
			parseHist, how = s.ParseOther, " under the other header version"
		}
		recv := s.New()
		bad := false
		for _, h := range history {
			if p := vc.Catch(func() { _ = parseHist(recv, exact(h)) }); p != "" {
				bad = true // reported by the case of that body itself
				break
			}
		}
		if bad {
			if pass == 0 {
				return "", "", "history-prefix-panics"
			}
			break
		}
		r := c03Run1(s, recv, exact(body), false)
		if r.panic != "" {
			return c03Type(s.Name) + ":history-panic:" + vc.PanicSite(r.panic), fmt.Sprintf("a receiver that parsed %d earlier bodies%s panics on %s: %s", len(history), how, where, r.panic), "history"
		}
		if r.err != o.err {
			return c03Type(s.Name) + ":history-verdict", fmt.Sprintf("fresh receiver: err=%q, receiver that parsed %s before%s: err=%q (%s)", o.err, hx(history[len(history)-1]), how, r.err, where), "history"
		}
		if r.err == "" && r.dump != o.dump {
			f := c03Trunc(c03DiffPath(reflect.ValueOf(o.recv), reflect.ValueOf(r.recv), "", 0))
			return c03Type(s.Name) + ":history-state:" + f, fmt.Sprintf("result depends on what the receiver parsed before (%s after %s%s): field %s differs\n fresh:  %s\n reused: %s", where, hx(history[len(history)-1]), how, f, c03Short(o.dump), c03Short(r.dump)), "history"
		}
	}
	// history on ONE receiver through ONE re-used buffer (the read buffer of a connection): the earlier bodies are
	// overwritten in place by the later ones, so anything the receiver still aliases from an earlier parse changes under it
	if len(history) > 0 {
		maxLen := len(body)
		for _, h := range history {
			if len(h) > maxLen {
				maxLen = len(h)
			}
		}
		shared := make([]byte, maxLen)
		recv := s.New()
		bad := false
		for _, h := range history {
			n := copy(shared, h)
			if p := vc.Catch(func() { _ = s.Parse(recv, shared[:n:n]) }); p != "" {
				bad = true
				break
			}
		}
		if !bad {
			n := copy(shared, body)
			r := c03Run1(s, recv, shared[:n:n], false)
			if r.panic != "" {
				return c03Type(s.Name) + ":shared-buffer-panic:" + vc.PanicSite(r.panic), fmt.Sprintf("a receiver fed %d earlier bodies through one re-used buffer panics on %s: %s", len(history), where, r.panic), "history"
			}
			if r.err != o.err || (r.err == "" && r.dump != o.dump) {
				f := ""
				if r.err == "" && o.err == "" {
					f = c03Trunc(c03DiffPath(reflect.ValueOf(o.recv), reflect.ValueOf(r.recv), "", 0))
				}
				return c03Type(s.Name) + ":shared-buffer-state:" + f, fmt.Sprintf("receiver and read buffer both re-used (%s after %s in the same buffer): fresh err=%q, re-used err=%q, field %s differs\n fresh:  %s\n reused: %s", where, hx(history[len(history)-1]), o.err, r.err, f, c03Short(o.dump), c03Short(r.dump)), "history"
			}
		}
	}
	if o.err != "" {
		return "", "", "rejected"
	}
	return "", "", "parsed"
}

func c03Short(s string) string {
	if len(s) > 700 {
		return s[:700] + "..."
	}
	return s
}

func init() {
	vc.Register(&vc.Check{
		ID: "C03", Level: "exploration",
		Rule: "subjects: Parse(+String) of every exported message type x header version {2013,2019} x the five dialects for 0x1210/0x9208, 0x0200 with the five vendor extension parsers installed, jt808 Decode, jt1078 Decode. Per subject: " +
			"(0) every seed body on a fresh receiver before and after the whole run (state outside the receiver); every history also through ONE re-used buffer; all strings over {00,0A,A0,AA,59} in the six BCD time bytes of location blocks; (a) ALL byte strings of length 0..6 over {00,01,02,FF} and 0..4 over a 10-symbol alphabet of counts and item/parameter IDs; (b) after EVERY truncation point of every seed body, all suffixes of length 0..2 (thorough 3) over {00,01,02,05,31,FF}; " +
			"(c) for every seed: every single-byte substitution by a 25-value menu of boundary values, counts and item IDs (thorough: all 256 values), every pair of substitutions from {00,01,FF} at positions where a single substitution changed the outcome (found by the run), every extension by 1..3 bytes; " +
			"(d) history independence: every ordered pair (and every triple of a 5-body menu) of seed/mutated bodies on one receiver compared with a fresh receiver. Each case runs on an exact-capacity slice and on two buffers with differently poisoned tails. " +
			"Seeds are the valid bodies found in the repository's own test files plus harness samples. Non-trivial = the body parses successfully or differs from a seed in <=2 bytes",
		Assumptions: []string{"alphabets are finite: a defect that needs >=3 specific non-special bytes at unrelated positions is out of reach", "termination is watched by a 20 s no-progress watchdog per worker"},
		Run:         c03Run,
		Drivers: map[string]func(json.RawMessage) string{"c03": func(raw json.RawMessage) string {
			var c c03Case
			_ = json.Unmarshal(raw, &c)
			for _, s := range c03Subjects() {
				if s.Name == c.Subject {
					var hist [][]byte
					for _, h := range c.History {
						hist = append(hist, unhx(h))
					}
					_, d, _ := c03Eval(&s, unhx(c.Body), hist)
					return d
				}
			}
			return "unknown subject " + c.Subject
		}},
	})
}

func c03Run(ctx *vc.Ctx, rep *vc.Report) {
	subs := c03Subjects()
	// watchdog: a Parse that does not return is a violation of "terminates promptly"
	done := make(chan struct{})
	defer close(done)
	hung := make(chan string, 1)
	go func() {
		last := c03Progress.Load()
		stall := 0
		for {
			select {
			case <-done:
				return
			case <-time.After(2 * time.Second):
			}
			cur := c03Progress.Load()
			if cur == last {
				stall++
			} else {
				stall = 0
			}
			last = cur
			if stall >= 10 {
				c, _ := c03Current.Load().(string)
				hung <- c
				return
			}
		}
	}()
	var idx int64
	small := newStrSpace([]byte{0x00, 0x01, 0x02, 0xFF}, 6)
	wide := newStrSpace([]byte{0x00, 0x01, 0x02, 0x03, 0x05, 0x11, 0x25, 0x31, 0x7E, 0xFF}, 4)
	sfxLen := 2
	if ctx.Thorough() {
		sfxLen = 3
	}
	sfx := newStrSpace([]byte{0x00, 0x01, 0x02, 0x05, 0x31, 0xFF}, sfxLen)
	buf := make([]byte, 0, 16)
	// outcome of every seed body on a fresh receiver BEFORE anything else was parsed in this process; compared with the
	// outcome AFTER the whole family ran (state kept outside the receiver - a package-level cache or scratch buffer -
	// would make the later outcome depend on earlier parses although the receiver is fresh)
	type seedOut struct{ err, dump string }
	before := map[string]seedOut{}
	for si := range subs {
		s := &subs[si]
		for k, seed := range s.Seeds {
			o := c03Run1(s, s.New(), exact(seed), false)
			before[fmt.Sprintf("%s#%d", s.Name, k)] = seedOut{o.err + o.panic, o.dump}
		}
	}
	defer func() {
		if ctx.Worker != 0 && ctx.Worker != ctx.NWorkers-1 {
			return
		}
		for si := range subs {
			s := &subs[si]
			for k, seed := range s.Seeds {
				o := c03Run1(s, s.New(), exact(seed), false)
				b := before[fmt.Sprintf("%s#%d", s.Name, k)]
				rep.Evaluations++
				if (o.err+o.panic) != b.err || o.dump != b.dump {
					rep.Add(c03Type(s.Name)+":process-state", fmt.Sprintf("a FRESH receiver gives a different outcome for %s body=%s after the other parses of this run than before them: state outside the receiver\n before: %s %s\n after:  %s %s", s.Name, hx(seed), b.err, c03Short(b.dump), o.err+o.panic, c03Short(o.dump)), "c03", c03Case{Subject: s.Name, Body: hx2(seed)})
				}
			}
		}
	}()
	for si := range subs {
		s := &subs[si]
		forceMine := false
		try := func(body []byte, hist [][]byte, near bool) string {
			idx++
			if !forceMine && !ctx.Mine(idx) {
				return ""
			}
			select {
			case c := <-hung:
				rep.Add("hang", "no progress for 20 s while running "+c, "c03", c03Case{Subject: s.Name, Body: hx2(body)})
			default:
			}
			sig, diag, class := c03Eval(s, body, hist)
			rep.Evaluations++
			if class == "parsed" || near {
				rep.Nontrivial++
			}
			if sig != "" {
				rep.Outcome("fail:" + class)
				var hh []string
				for _, h := range hist {
					hh = append(hh, hx2(h))
				}
				rep.Add(sig, diag, "c03", c03Case{Subject: s.Name, Body: hx2(body), History: hh})
			} else {
				rep.Outcome(class)
			}
			return class
		}
		if ctx.Expired() {
			rep.Truncated = true
			return
		}
		// (a) exhaustive short strings
		for i := int64(0); i < small.total; i++ {
			try(append([]byte(nil), small.at(i, buf)...), nil, false)
		}
		for i := int64(0); i < wide.total; i++ {
			try(append([]byte(nil), wide.at(i, buf)...), nil, false)
		}
		// (b) every truncation point + exhaustive suffix
		for _, seed := range s.Seeds {
			for cut := 0; cut <= len(seed); cut++ {
				for i := int64(0); i < sfx.total; i++ {
					b := append(append([]byte(nil), seed[:cut]...), sfx.at(i, buf)...)
					try(b, nil, true)
				}
			}
		}
		// (c) substitutions. Structural positions (where a substitution changes the outcome class) are found by
		// every worker with a cheap 4-value probe; the enumeration itself is sharded case by case.
		subst := c03SubstValues(ctx.Thorough())
		seedsC := s.Seeds
		if !ctx.Thorough() && len(seedsC) > 5 {
			seedsC = seedsC[:5]
		}
		for _, seed := range seedsC {
			base := c03Class(s, seed)
			var structural []int
			for pos := 0; pos < len(seed) && len(structural) < 24; pos++ {
				for _, v := range []byte{0x00, 0x01, 0xFF, seed[pos] ^ 0xFF} {
					if v == seed[pos] {
						continue
					}
					g := append([]byte(nil), seed...)
					g[pos] = v
					if c03Class(s, g) != base {
						structural = append(structural, pos)
						break
					}
				}
			}
			for pos := 0; pos < len(seed); pos++ {
				for _, v := range subst {
					if v == seed[pos] {
						continue
					}
					g := append([]byte(nil), seed...)
					g[pos] = v
					try(g, nil, true)
				}
			}
			for a := 0; a < len(structural); a++ {
				for b := a + 1; b < len(structural); b++ {
					for _, va := range []byte{0x00, 0x01, 0xFF} {
						for _, vb := range []byte{0x00, 0x01, 0xFF} {
							g := append([]byte(nil), seed...)
							g[structural[a]], g[structural[b]] = va, vb
							try(g, nil, true)
						}
					}
				}
			}
			for ext := 1; ext <= 3; ext++ {
				for _, v := range []byte{0x00, 0x01, 0xFF} {
					g := append([]byte(nil), seed...)
					for k := 0; k < ext; k++ {
						g = append(g, v)
					}
					try(g, nil, true)
				}
			}
		}
		// (c1) every seed with 0x40 / 0x80 / 0xC0 OR-ed into each of its first 8 bytes (count and length fields pushed
		// to where 16-bit arithmetic wraps while their low bits stay consistent with the data present)
		for _, seed := range s.Seeds {
			for pos := 0; pos < min(8, len(seed)); pos++ {
				for _, hi := range []byte{0x40, 0x80, 0xC0} {
					g := append([]byte(nil), seed...)
					g[pos] |= hi
					try(g, nil, true)
				}
			}
		}
		// (c2) long bodies: every seed padded to 320 bytes, each of its first 8 bytes swept over length-like values
		// (count and length bytes need enough trailing data to pass the parsers' own checks before they matter)
		for _, seed := range seedsC {
			for _, fill := range []byte{0x00, 0x41} {
				long := append([]byte(nil), seed...)
				for len(long) < 320 {
					long = append(long, fill)
				}
				try(long, nil, true)
				for pos := 0; pos < min(8, len(seed)); pos++ {
					for _, v := range []byte{0x00, 0x01, 0x7F, 0x80, 0xC8, 0xDB, 0xDC, 0xDD, 0xF0, 0xFE, 0xFF} {
						g := append([]byte(nil), long...)
						g[pos] = v
						try(g, nil, true)
					}
				}
			}
		}
		// (e) the six BCD time bytes of a location block: every string over {00,0A,A0,AA,59} (nibbles above 9 are rendered
		// as punctuation, which the re-encoding used by String() strips again)
		if off := map[uint16]int{0x0200: 22, 0x0704: 27, 0x0801: 30}[s.ID]; off > 0 {
			tsp := newStrSpace([]byte{0x00, 0x0A, 0xA0, 0xAA, 0x59}, 6)
			for k, seed := range s.Seeds {
				if k >= 2 || len(seed) < off+6 {
					continue
				}
				for i := tsp.starts[6]; i < tsp.total; i++ {
					g := append([]byte(nil), seed...)
					copy(g[off:], tsp.at(i, buf))
					try(g, nil, true)
				}
			}
		}
		// (d) history independence
		menu := append([][]byte(nil), s.Seeds...)
		for _, seed := range s.Seeds {
			if len(seed) > 2 {
				g := append([]byte(nil), seed...)
				g[len(g)/2] ^= 0xFF
				menu = append(menu, g, seed[:len(seed)-1])
			}
		}
		if len(menu) > 12 {
			menu = menu[:12]
		}
		for _, a := range menu {
			for _, b := range menu {
				try(b, [][]byte{a}, true)
			}
		}
		m5 := menu[:min(5, len(menu))]
		for _, a := range m5 {
			for _, b := range m5 {
				for _, c := range m5 {
					try(c, [][]byte{a, b}, true)
				}
			}
		}
		if ctx.Worker == 0 && len(s.Seeds) > 0 && si%9 == 0 {
			rep.Sample(map[string]any{"subject": s.Name, "seed": hx(s.Seeds[0])})
		}
		if rep.TooMany() {
			return
		}
	}
}

// c03SubstValues: all 256 byte values in the thorough tier, a 24-value menu of
// boundary values, counts and item IDs in the quick tier.
func c03SubstValues(thorough bool) []byte {
	if thorough {
		out := make([]byte, 256)
		for i := range out {
			out[i] = byte(i)
		}
		return out
	}
	return []byte{0x00, 0x01, 0x02, 0x03, 0x04, 0x05, 0x06, 0x07, 0x08, 0x0A, 0x10, 0x11, 0x1E, 0x1F, 0x20, 0x25, 0x30, 0x31, 0x64, 0x7D, 0x7E, 0x7F, 0x80, 0xFE, 0xFF}
}

// c03Class is the cheap outcome class used to find structural positions.
func c03Class(s *c03Subject, body []byte) string {
	var err error
	recv := s.New()
	if p := vc.Catch(func() { err = s.Parse(recv, exact(body)) }); p != "" {
		return "panic"
	}
	if err != nil {
		return "error"
	}
	return "ok"
}

// repoRoot is /repo unless VERIF_REPO names another checkout (seeded-change testing).
func repoRoot() string {
	if r := os.Getenv("VERIF_REPO"); r != "" {
		return r
	}
	return "/repo"
}
