package checks

import (
	"bytes"
	"encoding/json"
	"fmt"
	"os"
	"os/exec"
	"path/filepath"
	"slices"
	"sort"
	"strings"

	"github.com/cuteLittleDevil/go-jt808/attachment"
	"github.com/cuteLittleDevil/go-jt808/protocol/jt808"
	"github.com/cuteLittleDevil/go-jt808/protocol/model"
	"github.com/cuteLittleDevil/go-jt808/shared/consts"
	"verif/harness/ref"
	"verif/harness/vc"
	"verif/harness/vnet"
	"verif/harness/vos"
	"verif/harness/vs"
)

// C15 - attachment upload: files are reassembled byte-exactly.
// C16 - the completion report lists exactly the missing byte ranges.
// C19 - stored attachments stay inside the terminal's directory.
//
// All three drive the REAL attachment connection loop (connection.run through
// the VerifRunConnection accessor) on a scripted connection whose reads are
// exactly the chunks of the script; C16 additionally enumerates the pure range
// computation Package.StatisticalMissSegments.

// ---- scripted upload sessions ----

type upFile struct {
	Name string `json:"name"`
	Data string `json:"data_hex"`
}

type upChunk struct {
	File int `json:"file"`
	Off  int `json:"off"`
	Len  int `json:"len"`
}

type upCase struct {
	Dialect int       `json:"dialect"` // index into the dialect list
	AlarmID string    `json:"alarm_id"`
	Files   []upFile  `json:"files"`
	Chunks  []upChunk `json:"chunks"` // arrival order; may repeat (resent) or omit (missing) ranges
	// Finish: after the chunks, send 0x1212 for every file; Second: then resend what the first report named and send 0x1212 again
	Finish bool `json:"finish"`
	Second bool `json:"second_round,omitempty"`
	// Tail: after the completion frames, these (already received) chunks are resent, each directly behind a control
	// frame (0x1212 before it, 0x1212 again after it)
	Tail []upChunk `json:"tail,omitempty"`
	// Segmentation of the whole byte stream into reads: "unit" (one frame/chunk per read), "all" (one read), or explicit cut offsets
	Cuts    []int  `json:"cuts,omitempty"`
	Seg     string `json:"segmentation"`
	Default bool   `json:"default_file_handler,omitempty"`
	Phone   string `json:"phone,omitempty"`
}

type upEvent struct {
	Stage   attachment.ProgressStage
	Files   map[string]upFileState
	Current string
	Err     string
}

type upFileState struct {
	Size, Current uint32
	Body          []byte
}

type upRecorder struct{ ev []upEvent }

func (r *upRecorder) OnEvent(p *attachment.PackageProgress) {
	e := upEvent{Stage: p.ProgressStage, Files: map[string]upFileState{}}
	for n, pk := range p.Record {
		e.Files[n] = upFileState{Size: pk.FileSize, Current: pk.CurrentSize, Body: append([]byte(nil), pk.StreamBody...)}
	}
	if p.ExtensionFields.CurrentPackage != nil {
		e.Current = p.ExtensionFields.CurrentPackage.FileName
	}
	if p.ExtensionFields.Err != nil {
		e.Err = p.ExtensionFields.Err.Error()
	}
	r.ev = append(r.ev, e)
}

const upPhone = "13800138000"

// upUnits renders the session as protocol units (control frames and chunks).
func upUnits(c upCase, firstReport map[int][][2]uint32) (units [][]byte, kinds []string) {
	d := int(c03Dialects[c.Dialect])
	phone := c.Phone
	if phone == "" {
		phone = upPhone
	}
	var files []ref.AttFile
	for _, f := range c.Files {
		files = append(files, ref.AttFile{Name: f.Name, Size: uint32(len(unhx(f.Data)))})
	}
	ser := uint16(0)
	ctl := func(id uint16, body []byte) {
		ser++
		units = append(units, ref.Encode(ref.TermHeader(id, false, phone, ser), body))
		kinds = append(kinds, fmt.Sprintf("%04x", id))
	}
	ctl(0x1210, ref.Body1210(d, c.AlarmID, files))
	announced := map[int]bool{}
	for _, ch := range c.Chunks {
		if !announced[ch.File] {
			announced[ch.File] = true
			ctl(0x1211, ref.Body1211(c.Files[ch.File].Name, 0, files[ch.File].Size))
		}
		data := unhx(c.Files[ch.File].Data)
		units = append(units, ref.StreamChunk(d, c.Files[ch.File].Name, uint32(ch.Off), data[ch.Off:ch.Off+ch.Len]))
		kinds = append(kinds, "chunk")
	}
	if c.Finish {
		for i, f := range c.Files {
			if !announced[i] {
				ctl(0x1211, ref.Body1211(f.Name, 0, files[i].Size))
			}
			ctl(0x1212, ref.Body1211(f.Name, 0, files[i].Size))
		}
	}
	for _, ch := range c.Tail {
		data := unhx(c.Files[ch.File].Data)
		units = append(units, ref.StreamChunk(d, c.Files[ch.File].Name, uint32(ch.Off), data[ch.Off:ch.Off+ch.Len]))
		kinds = append(kinds, "chunk")
		ctl(0x1212, ref.Body1211(c.Files[ch.File].Name, 0, files[ch.File].Size))
	}
	if c.Second && firstReport != nil {
		for i, f := range c.Files {
			data := unhx(f.Data)
			for _, m := range firstReport[i] {
				units = append(units, ref.StreamChunk(d, f.Name, m[0], data[m[0]:m[0]+m[1]]))
				kinds = append(kinds, "chunk")
			}
			ctl(0x1212, ref.Body1211(f.Name, 0, files[i].Size))
		}
	}
	return
}

// upMissing computes the maximal missing ranges of a file given received chunks.
func upMissing(size int, got []upChunk, file int) [][2]uint32 {
	have := make([]bool, size)
	for _, g := range got {
		if g.File == file {
			for i := g.Off; i < g.Off+g.Len && i < size; i++ {
				have[i] = true
			}
		}
	}
	var out [][2]uint32
	for i := 0; i < size; {
		if have[i] {
			i++
			continue
		}
		j := i
		for j < size && !have[j] {
			j++
		}
		out = append(out, [2]uint32{uint32(i), uint32(j - i)})
		i = j
	}
	return out
}

type upResult struct {
	panicked string
	events   []upEvent
	replies  [][]byte
	reads    int
	files    map[string][]byte // what the default handler wrote (virtual fs)
	accesses []vos.Access
}

func upRun(c upCase) upResult {
	var firstReport map[int][][2]uint32
	if c.Second {
		firstReport = map[int][][2]uint32{}
		for i, f := range c.Files {
			firstReport[i] = upMissing(len(unhx(f.Data)), c.Chunks, i)
		}
	}
	units, _ := upUnits(c, firstReport)
	var stream []byte
	var bounds []int
	for _, u := range units {
		stream = append(stream, u...)
		bounds = append(bounds, len(stream))
	}
	var cuts []int
	switch c.Seg {
	case "unit":
		cuts = bounds[:len(bounds)-1]
	case "all":
	default:
		cuts = c.Cuts
	}
	peer := vnet.NewConn()
	pos := 0
	nreads := 0
	for _, b := range append(append([]int(nil), cuts...), len(stream)) {
		if b > pos {
			peer.Send(stream[pos:b])
			pos = b
			nreads++
		}
	}
	peer.Close()
	vos.Reset("/sandbox")
	vos.Virtual = true
	rec := &upRecorder{}
	var res upResult
	res.reads = nreads
	res.panicked = vc.Catch(func() {
		var fe attachment.FileEventer = rec
		if c.Default {
			fe = attachment.VerifNewFileEvent()
		}
		attachment.VerifRunConnection(peer.C, c03Dialects[c.Dialect], nil, fe)
	})
	res.events = rec.ev
	res.replies = framesOf(peer.C.Out)
	res.files = vos.Files
	res.accesses = vos.Log
	return res
}

// upEval is the C15/C16 oracle for one scripted session.
func upEval(c upCase, prop string) (sig, diag string, reads int, nontrivial bool) {
	r := upRun(c)
	where := fmt.Sprintf("dialect %s, files %d, chunks %v, seg %s %v", c03Dialects[c.Dialect], len(c.Files), c.Chunks, c.Seg, c.Cuts)
	if r.panicked != "" {
		return "panic:" + vc.PanicSite(r.panicked) + ":" + vc.PanicClass(r.panicked), "attachment connection panicked: " + r.panicked + " (" + where + ")", r.reads, true
	}
	// coverage of each file by the chunks sent in the first round
	complete := map[string]bool{}
	for i, f := range c.Files {
		complete[f.Name] = len(upMissing(len(unhx(f.Data)), c.Chunks, i)) == 0
	}
	// no session error on a well-formed session
	for _, e := range r.events {
		if e.Stage == attachment.ProgressStageFailQuit {
			return "session-aborted", fmt.Sprintf("a well-formed session ended in FailQuit: %s (%s)", e.Err, where), r.reads, true
		}
	}
	// a file is reported complete only when every byte has arrived, and then byte-identical
	want := map[string][]byte{}
	for _, f := range c.Files {
		want[f.Name] = unhx(f.Data)
	}
	for _, e := range r.events {
		for n, st := range e.Files {
			full := st.Current == st.Size && st.Size > 0
			if e.Stage == attachment.ProgressStageStreamDataComplete && e.Current == n || full && len(st.Body) > 0 {
				if !c.Second && !complete[n] {
					return "complete-before-all-bytes", fmt.Sprintf("file %q reported complete (%d/%d) although bytes are still missing (%s)", n, st.Current, st.Size, where), r.reads, true
				}
				if !bytes.Equal(st.Body, want[n]) {
					return "content-differs", fmt.Sprintf("file %q reassembled as %s, original %s (%s)", n, hx(st.Body), hx(want[n]), where), r.reads, true
				}
			}
		}
	}
	// every fully supplied file must have been reported complete with the right content at the end
	if len(r.events) > 0 {
		last := r.events[len(r.events)-1]
		for _, f := range c.Files {
			st, ok := last.Files[f.Name]
			if !ok {
				return "file-unknown", fmt.Sprintf("announced file %q is not in the record (%s)", f.Name, where), r.reads, true
			}
			if (complete[f.Name] || c.Second) && !bytes.Equal(st.Body, want[f.Name]) {
				return "never-complete", fmt.Sprintf("file %q was supplied completely but ends as %d/%d bytes, body %s (%s)", f.Name, st.Current, st.Size, hx(st.Body), where), r.reads, true
			}
		}
	}
	// replies: one per control frame, prescribed type, consecutive serials
	var firstReport map[int][][2]uint32
	if c.Second {
		firstReport = map[int][][2]uint32{}
		for i, f := range c.Files {
			firstReport[i] = upMissing(len(unhx(f.Data)), c.Chunks, i)
		}
	}
	units, kinds := upUnits(c, firstReport)
	var wantReplies []struct {
		id   uint16
		body []byte
	}
	seen1212 := map[string]int{}
	for i, k := range kinds {
		if k == "chunk" {
			continue
		}
		f, _ := ref.Decode(units[i])
		switch f.ID {
		case 0x1210, 0x1211:
			wantReplies = append(wantReplies, struct {
				id   uint16
				body []byte
			}{0x8001, []byte{byte(f.Serial >> 8), byte(f.Serial), byte(f.ID >> 8), byte(f.ID), 0}})
		case 0x1212:
			name := string(f.Body[1 : 1+int(f.Body[0])])
			var fi int
			for i2, ff := range c.Files {
				if ff.Name == name {
					fi = i2
				}
			}
			miss := upMissing(len(unhx(c.Files[fi].Data)), c.Chunks, fi)
			if seen1212[name] > 0 {
				miss = nil // second round: everything named was resent
			}
			seen1212[name]++
			wantReplies = append(wantReplies, struct {
				id   uint16
				body []byte
			}{0x9212, ref.Reply9212(name, 0, miss)})
		}
	}
	if len(r.replies) != len(wantReplies) {
		return "reply-count", fmt.Sprintf("%d replies for %d control frames (%s)", len(r.replies), len(wantReplies), where), r.reads, true
	}
	for i, g := range r.replies {
		f, err := ref.Decode(g)
		if err != nil {
			return "reply-undecodable", fmt.Sprintf("reply %d is not a valid frame: %s", i, hx(g)), r.reads, true
		}
		w := wantReplies[i]
		if f.ID != w.id || f.Serial != uint16(i) {
			return "reply-header", fmt.Sprintf("reply %d is %04x with serial %d, want %04x serial %d (%s)", i, f.ID, f.Serial, w.id, i, where), r.reads, true
		}
		if !bytes.Equal(f.Body, w.body) {
			cls := "reply-body"
			if w.id == 0x9212 {
				cls = "completion-report"
			}
			return cls, fmt.Sprintf("reply %d (%04x) has body %s, want %s (%s)", i, f.ID, hx(f.Body), hx(w.body), where), r.reads, true
		}
	}
	nt := len(c.Chunks) >= 2
	return "", "", r.reads, nt
}

// ---- enumeration helpers ----

func perms(n int) [][]int {
	if n == 0 {
		return [][]int{{}}
	}
	var out [][]int
	var rec func(cur []int, used []bool)
	rec = func(cur []int, used []bool) {
		if len(cur) == n {
			out = append(out, append([]int(nil), cur...))
			return
		}
		for i := 0; i < n; i++ {
			if !used[i] {
				used[i] = true
				rec(append(cur, i), used)
				used[i] = false
			}
		}
	}
	rec(nil, make([]bool, n))
	return out
}

func orders(n int) [][]int {
	if n <= 4 {
		return perms(n)
	}
	var out [][]int
	base := make([]int, n)
	for i := range base {
		base[i] = i
	}
	for r := 0; r < n; r++ {
		out = append(out, append(append([]int(nil), base[r:]...), base[:r]...))
	}
	rev := make([]int, n)
	for i := range rev {
		rev[i] = n - 1 - i
	}
	return append(out, rev)
}

func splitChunks(file, size, chunk int) []upChunk {
	var out []upChunk
	for off := 0; off < size; off += chunk {
		out = append(out, upChunk{File: file, Off: off, Len: min(chunk, size-off)})
	}
	return out
}

func upData(size int, seed byte) string {
	b := make([]byte, size)
	for i := range b {
		b[i] = seed + byte(i*7)
	}
	// make sure the marker bytes occur inside file data too
	if size >= 6 {
		copy(b[1:], []byte{0x30, 0x31, 0x63, 0x64})
	}
	return hx2(b)
}

var upNames = []string{"a.jpg", "01cd", "x01cdy", "n~\x7e.bin", strings.Repeat("n", 46) + ".mp4"}

func init() {
	vc.Register(&vc.Check{
		ID: "C15", Level: "model_checking",
		Rule: "the real attachment connection loop on scripted connections: file sets of 1..2 files (thorough 3), sizes 1..6 (plus one file of 2.5 x 64 KiB chunks), chunk sizes 1..3, ALL chunk orders (<= 4 chunks: all permutations; more: rotations and reversal), one resent chunk at every position and behind the completion frame, a lost chunk followed by the completion report / resend / second report round, names and alarm IDs from {a.jpg, 01cd, x01cdy, a name with 0x7E, a 50-byte name}, the five dialects, for the length-prefixed HLJ chunk header also names of 51..255 bytes; every stream cut into reads: one unit per read, all coalesced, EVERY 1-cut, and every 2-cut among positions within 1 byte of a frame/chunk boundary, marker or length field (thorough: every 2-cut of streams <= 500 bytes). " +
			"Oracle on FileEventer snapshots and socket replies: complete only when all bytes arrived, content byte-identical, one prescribed reply per control frame with serials 0,1,2... Binding of the accessor to the public entry point: 25 of the sessions (5 shapes x 5 dialects: whole, hole + second round, two files with resent chunks, one file lost, unfinished) are replayed over real loopback TCP against attachment.New(WithActiveSafetyType, WithFileEventerFunc...).Run() of the un-instrumented build: reply bytes and assembled files must be identical and every connection must get its own FileEventer (a difference in content is a violation, a real-TCP session that does not finish within 20 s is reported as inconclusive). states = scripted sessions (paths through the progress state machine), transitions = reads. Non-trivial = session with >= 2 chunks",
		Assumptions: []string{"reference layouts harness/ref/attach.go (Su-biao and the four dialect widths the repository documents)", "connection loop reached through the VerifRunConnection accessor (tag verif); tied to attachment.New(...).Run() by the real-TCP replay"},
		Run:         c15Run,
		Drivers: map[string]func(json.RawMessage) string{"up": func(raw json.RawMessage) string { return upReplay(raw, "C15") },
			"confb-att": func(raw json.RawMessage) string {
				bin := os.Getenv("VERIF_CONFB")
				if bin == "" {
					return "replay needs VERIF_CONFB (bin/vcheck sets it)"
				}
				f, err := os.CreateTemp("", "confb-att-*.json")
				if err != nil {
					return err.Error()
				}
				defer os.Remove(f.Name())
				_, _ = f.Write(append(append([]byte("["), raw...), ']'))
				_ = f.Close()
				out, _ := exec.Command(bin, f.Name()).CombinedOutput()
				if strings.Contains(string(out), "MISMATCH ") {
					return string(out)
				}
				return ""
			}},
	})
	vc.Register(&vc.Check{
		ID: "C16", Level: "model_checking",
		Rule: "(a) Package.StatisticalMissSegments on EVERY set of pairwise disjoint received chunks for file sizes 1..10 (thorough 12), plus every chunk set of the small shapes scaled by 2^28, 2^29, 0x1FFFFFFF, 0x33333333, 0x7FFFFFFF and 0xFFFFFFFF (files of gigabytes: offsets and lengths beyond 2^31, sizes up to 2^32-1), plus sizes up to 600 with 255 single-byte gaps, adjacent chunks, gaps at start/middle/end; each report must also still read the same after the next case's report has been computed; (b) the wire form: T0x1212.ReplyBody -> P0x9212.Encode decoded by the reference and by P0x9212.Parse for every such gap list; (c) over the socket for sizes <= 5: announce, send every disjoint chunk set in every order (<= 3 chunks), 0x1212 -> 'retransmit' with exactly the gaps, resend exactly those, 0x1212 -> 'complete'; and two files (3 and 2 bytes) in one session: every pair of chunk sets, either file's chunks first, 0x1212 for both (the report is about the file it names, whichever file's chunk came last). " +
			"states = distinct (size, received set) states, transitions = evaluations. Non-trivial = at least one gap",
		Assumptions: []string{"reference interval complement in checks/c15.go"},
		Run:         c16Run,
		Drivers: map[string]func(json.RawMessage) string{"up": func(raw json.RawMessage) string { return upReplay(raw, "C16") },
			"miss": func(raw json.RawMessage) string {
				var c missCase
				_ = json.Unmarshal(raw, &c)
				_, d := missEval(c)
				return d
			}},
	})
	vc.Register(&vc.Check{
		ID: "C19", Level: "exploration",
		Rule: "complete upload sessions (0x1210, 0x1211, chunks, 0x1212, EOF) with the DEFAULT file handler on a virtual file system rooted at a sandbox directory, for announced names = ALL strings of length 1..6 over {a . /} (1092) and all strings of length 1..5 over {a . / \\} that contain a backslash, EVERY byte value 0..255 in five separator positions (..Xe, ..X..Xe, X../e, aX../../e, X), each short name also with a leading '/', with an embedded NUL, '../' repeated up to the 255-byte wire limit, 50-byte chunk-header names, names that resolve to existing files outside (../file.log), names that climb out into a sibling whose name begins with the terminal's own directory name (../<phone>1/x, ../<phone>.bak/z, ../<phone>_note), x 5 phones (one all zeros, one with leading zeros only); plus announcements of 2 and 3 files whose names collide once sanitised (every ordered pair and triple of a 10-name menu reaching the same last element through different parents); plus two terminals with different phone numbers uploading at the same time (both announced before either finishes, all schedules of the two connection goroutines within 1 deviation, five dialects): each file must land in its own terminal's directory. " +
			"Every create/write target of the handler is logged by the vos shim (and carried out only inside the sandbox); it must lie under <root>/<phone>/ (the handler's own file.log excepted). Non-trivial = name contains '..' or '/'",
		Assumptions: []string{"the os calls of attachment/file_event.go are routed to harness/vos by import rewriting (vgen); paths are resolved lexically (no symlinks in the sandbox)"},
		Run:         c19Run,
		Drivers: map[string]func(json.RawMessage) string{"twoterm": func(raw json.RawMessage) string {
			var c twoTermCase
			_ = json.Unmarshal(raw, &c)
			x := &vs.Explorer{Make: twoTermMake(c), Check: twoTermCheck}
			res, _, _ := x.RunOnce(c.Choices, nil, false)
			out := ""
			for _, v := range twoTermCheck(res, nil) {
				out += v.Sig + ": " + v.Msg + "\n"
			}
			return out
		}, "name": func(raw json.RawMessage) string {
			var c nameCase
			_ = json.Unmarshal(raw, &c)
			_, d := nameEval(c)
			return d
		}},
	})
}

func upReplay(raw json.RawMessage, prop string) string {
	var c upCase
	if err := json.Unmarshal(raw, &c); err != nil {
		return err.Error()
	}
	_, d, _, _ := upEval(c, prop)
	return d
}

// confBAttachment replays representative upload sessions, as executed on the virtual socket through the accessor
// VerifRunConnection, over real loopback TCP against attachment.New(...).Run() of the un-instrumented build: same
// reply bytes, same assembled files, one FileEventer per connection, dialect taken from WithActiveSafetyType.
func confBAttachment(rep *vc.Report) {
	bin := os.Getenv("VERIF_CONFB")
	if bin == "" {
		rep.Notes = append(rep.Notes, "conformance B (attachment) skipped: VERIF_CONFB not set (bin/vcheck sets it)")
		return
	}
	type attTrace struct {
		Name      string            `json:"name"`
		Server    string            `json:"server"`
		Dialect   int               `json:"dialect"`
		Writes    []string          `json:"writes_hex"`
		ExpectAll string            `json:"expect_all_hex"`
		Files     map[string]string `json:"files_hex"`
	}
	var traces []attTrace
	for di := range c03Dialects {
		f1 := upFile{Name: "cb1.bin", Data: upData(5, 3)}
		f2 := upFile{Name: "cb2.jpg", Data: upData(4, 7)}
		cases := map[string]upCase{
			"whole":      {Files: []upFile{f1}, Chunks: []upChunk{{0, 0, 3}, {0, 3, 2}}, Finish: true},
			"hole":       {Files: []upFile{f1}, Chunks: []upChunk{{0, 0, 2}, {0, 4, 1}}, Finish: true, Second: true},
			"two-files":  {Files: []upFile{f1, f2}, Chunks: []upChunk{{1, 2, 2}, {0, 3, 2}, {0, 0, 3}, {1, 0, 2}, {0, 0, 3}}, Finish: true},
			"one-lost":   {Files: []upFile{f1, f2}, Chunks: []upChunk{{0, 0, 5}}, Finish: true, Second: true},
			"unfinished": {Files: []upFile{f1}, Chunks: []upChunk{{0, 1, 2}}},
		}
		for _, name := range sortedKeys(cases) {
			c := cases[name]
			c.Dialect, c.AlarmID, c.Seg = di, "cb", "unit"
			r := upRun(c)
			if r.panicked != "" || len(r.events) == 0 {
				rep.Nondet = "conformance B (attachment): virtual run failed: " + r.panicked
				return
			}
			var firstReport map[int][][2]uint32
			if c.Second {
				firstReport = map[int][][2]uint32{}
				for i, f := range c.Files {
					firstReport[i] = upMissing(len(unhx(f.Data)), c.Chunks, i)
				}
			}
			units, _ := upUnits(c, firstReport)
			t := attTrace{Name: fmt.Sprintf("%s/%s", c03Dialects[di], name), Server: "attachment", Dialect: int(c03Dialects[di]), Files: map[string]string{}}
			for _, u := range units {
				t.Writes = append(t.Writes, hx2(u))
			}
			var all []byte
			for _, f := range r.replies {
				all = append(all, f...)
			}
			t.ExpectAll = hx2(all)
			for n, st := range r.events[len(r.events)-1].Files {
				t.Files[n] = hx2(st.Body)
			}
			traces = append(traces, t)
		}
	}
	f, err := os.CreateTemp("", "confb-att-*.json")
	if err != nil {
		return
	}
	defer os.Remove(f.Name())
	js, _ := json.Marshal(traces)
	_, _ = f.Write(js)
	_ = f.Close()
	out, err := exec.Command(bin, f.Name()).CombinedOutput()
	if err != nil {
		code := -1
		if ee, ok := err.(*exec.ExitError); ok {
			code = ee.ExitCode()
		}
		switch code {
		case 3:
			rep.Notes = append(rep.Notes, "conformance B (attachment) skipped: loopback TCP not available here: "+strings.TrimSpace(string(out)))
		case 1:
			// the virtual runs are deterministic functions of the session and passed the oracle of this check; a public
			// entry point that answers the same session differently, or assembles other files, breaks the property
			for _, line := range strings.Split(string(out), "\n") {
				if !strings.HasPrefix(line, "MISMATCH ") {
					continue
				}
				for _, t := range traces {
					if strings.HasPrefix(line, "MISMATCH "+t.Name+": ") {
						rep.Outcome("fail:public-entry-point")
						rep.Add("public-entry-point-differs", "attachment.New(...).Run() over real TCP, session "+line[len("MISMATCH "):], "confb-att", t)
					}
				}
			}
		default:
			rep.SoftBroken = "conformance B (attachment): inconclusive (a real-TCP session did not finish within 20 s, or the replay tool failed):\n" + string(out)
		}
		return
	}
	rep.Count("conformance_b_attachment_sessions_identical_over_real_tcp", int64(len(traces)))
	rep.TracesValidated += int64(len(traces))
	rep.Notes = append(rep.Notes, "conformance B (attachment): "+strings.TrimSpace(string(out)))
}

func c15Run(ctx *vc.Ctx, rep *vc.Report) {
	if ctx.Worker == 0 {
		confBAttachment(rep)
	}
	var idx int64
	try := func(c upCase) {
		idx++
		if !ctx.Mine(idx) {
			return
		}
		done := vc.SetCurrent("up", c, fmt.Sprintf("upload session dialect %d files %d chunks %v seg %s %v", c.Dialect, len(c.Files), c.Chunks, c.Seg, c.Cuts))
		sig, diag, reads, nt := upEval(c, "C15")
		done()
		rep.Evaluations++
		rep.States++
		rep.Transitions += int64(reads)
		rep.TracesValidated++
		if nt {
			rep.Nontrivial++
		}
		if sig != "" {
			rep.Outcome("fail:" + sig)
			rep.Add(sig, diag, "up", c)
		} else {
			rep.Outcome("ok:" + c.Seg)
		}
		if idx%20011 == 0 {
			rep.Sample(c)
		}
	}
	segs := func(c upCase, heavy bool) {
		c.Seg = "unit"
		try(c)
		c.Seg = "all"
		try(c)
		if !heavy {
			return
		}
		units, _ := upUnits(c, nil)
		L := 0
		structural := map[int]bool{}
		for _, u := range units {
			structural[L] = true
			if bytes.HasPrefix(u, []byte{0x30, 0x31, 0x63, 0x64}) {
				for _, o := range []int{4, 5, 54, 58, 62} {
					structural[L+o] = true
				}
			} else {
				structural[L+13] = true
			}
			L += len(u)
		}
		near := func(p int) bool { return structural[p-1] || structural[p] || structural[p+1] }
		for a := 1; a < L; a++ {
			c.Seg, c.Cuts = "cut", []int{a}
			try(c)
		}
		for a := 1; a < L; a++ {
			if !(near(a) || (ctx.Thorough() && L <= 500)) {
				continue
			}
			for b := a + 1; b < L; b++ {
				if !(near(b) || (ctx.Thorough() && L <= 500)) {
					continue
				}
				c.Seg, c.Cuts = "cut", []int{a, b}
				try(c)
			}
		}
	}
	maxFiles := 2
	if ctx.Thorough() {
		maxFiles = 3
	}
	k := 0
	// one file: every size x chunk size x order x dialect x name; resent chunk at every position
	for di := range c03Dialects {
		for size := 1; size <= 6; size++ {
			for chunk := 1; chunk <= 3; chunk++ {
				base := splitChunks(0, size, chunk)
				for _, ord := range orders(len(base)) {
					if ctx.Expired() || rep.TooMany() {
						rep.Truncated = rep.Truncated || ctx.Expired()
						return
					}
					k++
					name := upNames[k%len(upNames)]
					c := upCase{Dialect: di, AlarmID: upNames[(k/5)%len(upNames)], Files: []upFile{{Name: name, Data: upData(size, byte(k))}}, Finish: true}
					for _, o := range ord {
						c.Chunks = append(c.Chunks, base[o])
					}
					heavy := len(ord) <= 2 || isIdentity(ord)
					segs(c, heavy && (size <= 3 || ctx.Thorough()))
					// every chunk resent right behind the completion frame (and the file finished again)
					for which := range base {
						d := c
						d.Tail = []upChunk{base[which]}
						segs(d, false)
					}
					// the first chunk sent once before its file is announced with 0x1211 is NOT generated: chunks of
					// unannounced files are outside a well-formed session
					// one resent chunk at every position
					for pos := 0; pos <= len(c.Chunks); pos++ {
						for which := range base {
							d := c
							d.Chunks = append(append(append([]upChunk(nil), c.Chunks[:pos]...), base[which]), c.Chunks[pos:]...)
							segs(d, false)
						}
					}
				}
			}
		}
		// a lost chunk, the completion report, the resend of exactly what it named, the second completion report
		// (every non-empty set of lost chunks, including ALL of them: a completion frame for a file of which nothing arrived)
		for size := 1; size <= 6; size++ {
			base := splitChunks(0, size, 2)
			for mask := 1; mask < 1<<len(base); mask++ {
				for _, alone := range []bool{false, true} {
					c := upCase{Dialect: di, AlarmID: "lost", Files: []upFile{{Name: "l.bin", Data: upData(size, 7)}}, Finish: true, Second: true}
					if !alone {
						c.Files = append(c.Files, upFile{Name: "whole.bin", Data: upData(3, 9)})
					}
					for i, ch := range base {
						if mask&(1<<i) == 0 {
							c.Chunks = append(c.Chunks, ch)
						}
					}
					if !alone {
						c.Chunks = append(c.Chunks, splitChunks(1, 3, 3)...)
					}
					segs(c, false)
				}
			}
		}
		// every name with every dialect once
		for _, name := range upNames {
			for _, alarm := range upNames {
				c := upCase{Dialect: di, AlarmID: alarm, Files: []upFile{{Name: name, Data: upData(5, 9)}}, Chunks: splitChunks(0, 5, 2), Finish: true}
				segs(c, true)
			}
		}
	}
	// the length-prefixed chunk header of the HLJ dialect carries names of up to 255 bytes: lengths around every point where
	// a one-byte sum can wrap (header = 13 + name length), one- and three-chunk files, every 1-cut
	for _, n := range []int{51, 100, 200, 242, 243, 244, 250, 254, 255} {
		name := strings.Repeat("h", n-4) + ".bin"
		for _, size := range []int{5, 300} {
			c := upCase{Dialect: 1, AlarmID: "hlj-long", Files: []upFile{{Name: name, Data: upData(size, byte(n))}}, Chunks: splitChunks(0, size, (size+2)/3), Finish: true}
			segs(c, size == 5)
		}
	}
	// several files, chunks interleaved in every order of a small chunk set
	for nf := 2; nf <= maxFiles; nf++ {
		for di := range c03Dialects {
			var files []upFile
			var chunks []upChunk
			for f := 0; f < nf; f++ {
				files = append(files, upFile{Name: upNames[f], Data: upData(3+f, byte(f*16))})
				chunks = append(chunks, splitChunks(f, 3+f, 2)...)
			}
			for _, ord := range orders(len(chunks)) {
				c := upCase{Dialect: di, AlarmID: "alarm-2", Files: files, Finish: true}
				for _, o := range ord {
					c.Chunks = append(c.Chunks, chunks[o])
				}
				segs(c, isIdentity(ord))
			}
		}
	}
	// one file of 2.5 real-size (64 KiB) chunks
	big := upCase{Dialect: 0, AlarmID: "big", Files: []upFile{{Name: "big.bin", Data: upData(163840, 3)}}, Chunks: splitChunks(0, 163840, 65536), Finish: true}
	segs(big, false)
	big.Chunks = []upChunk{big.Chunks[2], big.Chunks[0], big.Chunks[1]}
	segs(big, false)
}

func isIdentity(o []int) bool {
	for i, x := range o {
		if i != x {
			return false
		}
	}
	return true
}

// ---- C16: pure range computation ----

type missCase struct {
	Size   int      `json:"size"`
	Chunks [][2]int `json:"received"` // offset, length
	// Unit > 1: size, offsets and lengths are all multiplied by Unit (files of gigabytes: offsets beyond 2^31, sizes
	// up to 2^32-1); the reference is computed on the small shape and scaled
	Unit int `json:"unit,omitempty"`
}

var (
	c16PrevRes   []model.P0x9212RetransmitPacket
	c16PrevSnap  string
	c16PrevWhere string
)

func missEval(c missCase) (sig, diag string) {
	unit := max(c.Unit, 1)
	p := &attachment.Package{FileName: "f", FileSize: uint32(c.Size * unit), OffsetRecord: map[int]int{}, OffsetDataRecord: map[int][]byte{}}
	var got []upChunk
	for _, ch := range c.Chunks {
		p.OffsetRecord[ch[0]*unit] = ch[1] * unit
		p.CurrentSize += uint32(ch[1] * unit)
		got = append(got, upChunk{Off: ch[0], Len: ch[1]})
	}
	want := upMissing(c.Size, got, 0)
	for i := range want {
		want[i][0] *= uint32(unit)
		want[i][1] *= uint32(unit)
	}
	var res []model.P0x9212RetransmitPacket
	where := fmt.Sprintf("size %d received %v (x unit %d)", c.Size, c.Chunks, unit)
	// the package also remembers which chunk arrived LAST (Offset): the answer must not depend on it - every received
	// chunk is tried as the last arrival (the last one tried is the one whose answer is checked in full below)
	lasts := append([][2]int{{0, 0}}, c.Chunks...)
	var first []model.P0x9212RetransmitPacket
	for li, last := range lasts {
		p.Offset = last[0] * unit
		if pn := vc.Catch(func() { res = p.StatisticalMissSegments() }); pn != "" {
			return "miss:panic:" + vc.PanicSite(pn), "StatisticalMissSegments panicked: " + pn
		}
		if li == 0 {
			first = res
		} else if fmt.Sprint(res) != fmt.Sprint(first) {
			return "miss:depends-on-arrival-order", fmt.Sprintf("with chunk at offset %d as the last arrival the report is %v, with offset 0 recorded it is %v (%s)", last[0], res, first, where)
		}
	}
	// the report computed for the PREVIOUS case of this worker (another file, as another connection would have) is still
	// what it was: a report handed to a caller is not rewritten by the next computation
	if c16PrevRes != nil && fmt.Sprint(c16PrevRes) != c16PrevSnap {
		d := fmt.Sprintf("the report computed earlier for %s was %s; after computing the report for %s it reads %v", c16PrevWhere, c16PrevSnap, where, c16PrevRes)
		c16PrevRes = nil
		return "miss:earlier-report-rewritten", d
	}
	c16PrevRes, c16PrevSnap, c16PrevWhere = res, fmt.Sprint(res), where
	if len(want) == 0 && res != nil {
		return "miss:complete-not-nil", fmt.Sprintf("file fully received but %d ranges reported (%s)", len(res), where)
	}
	if len(res) != len(want) {
		return "miss:range-count", fmt.Sprintf("reported %v, missing ranges are %v (%s)", res, want, where)
	}
	for i := range want {
		if res[i].DataOffset != want[i][0] || res[i].DataLength != want[i][1] {
			return "miss:range-value", fmt.Sprintf("range %d reported as {%d,%d}, want {%d,%d} (%s)", i, res[i].DataOffset, res[i].DataLength, want[i][0], want[i][1], where)
		}
	}
	// wire form: T0x1212.ReplyBody -> P0x9212.Encode, read back by the reference and by P0x9212.Parse
	t := &model.T0x1212{P0x9212RetransmitPacketList: res}
	m := jt808.NewJTMessage()
	m.Header.ProtocolVersion = consts.JT808Protocol2013
	m.Body = exact(ref.Body1211("f.bin", 2, uint32(c.Size*unit)))
	var body []byte
	var err error
	if pn := vc.Catch(func() { body, err = t.ReplyBody(m) }); pn != "" || err != nil {
		return "wire:replybody", fmt.Sprintf("ReplyBody failed: %v %s (%s)", err, pn, where)
	}
	wb := ref.Reply9212("f.bin", 2, want)
	if !bytes.Equal(body, wb) {
		return "wire:body", fmt.Sprintf("0x9212 body %s, want %s (%s)", hx(body), hx(wb), where)
	}
	var back model.P0x9212
	m2 := jt808.NewJTMessage()
	m2.Body = exact(body)
	if pn := vc.Catch(func() { err = back.Parse(m2) }); pn != "" || err != nil {
		return "wire:parse", fmt.Sprintf("P0x9212.Parse of the reply failed: %v %s (%s)", err, pn, where)
	}
	if len(back.P0x9212RetransmitPacketList) != len(want) {
		return "wire:parse-count", fmt.Sprintf("P0x9212.Parse read %d ranges, want %d (%s)", len(back.P0x9212RetransmitPacketList), len(want), where)
	}
	for i := range want {
		g := back.P0x9212RetransmitPacketList[i]
		if g.DataOffset != want[i][0] || g.DataLength != want[i][1] {
			return "wire:parse-value", fmt.Sprintf("P0x9212.Parse read range %d as {%d,%d}, want {%d,%d} (%s)", i, g.DataOffset, g.DataLength, want[i][0], want[i][1], where)
		}
	}
	wantFlag := byte(0)
	if len(want) > 0 {
		wantFlag = 1
	}
	if back.UploadResult != wantFlag {
		return "wire:flag", fmt.Sprintf("upload result flag %d, want %d (%s)", back.UploadResult, wantFlag, where)
	}
	return "", ""
}

// chunkSets enumerates every set of pairwise disjoint chunks of [0,size).
func chunkSets(size int, f func([][2]int)) {
	var rec func(pos int, cur [][2]int)
	rec = func(pos int, cur [][2]int) {
		if pos >= size {
			f(cur)
			return
		}
		rec(pos+1, cur) // byte pos missing
		for l := 1; pos+l <= size; l++ {
			rec(pos+l, append(append([][2]int(nil), cur...), [2]int{pos, l}))
		}
	}
	rec(0, nil)
}

func c16Run(ctx *vc.Ctx, rep *vc.Report) {
	var idx int64
	maxSize := 10
	if ctx.Thorough() {
		maxSize = 12
	}
	tryMiss := func(c missCase) {
		if len(upMissing(c.Size, toUp(c.Chunks), 0)) > 255 {
			return // the wire format counts gaps in one byte: more than 255 is outside the property
		}
		idx++
		if !ctx.Mine(idx) {
			return
		}
		sig, diag := missEval(c)
		rep.Evaluations++
		rep.States++
		rep.Transitions++
		gaps := len(upMissing(c.Size, toUp(c.Chunks), 0))
		if gaps > 0 {
			rep.Nontrivial++
		}
		if sig != "" {
			rep.Outcome("fail:" + sig)
			rep.Add(sig, diag, "miss", c)
		} else {
			rep.Outcome(fmt.Sprintf("ok-gaps=%d", min(gaps, 4)))
		}
		if idx%50021 == 0 {
			rep.Sample(c)
		}
	}
	for size := 1; size <= maxSize; size++ {
		chunkSets(size, func(cs [][2]int) { tryMiss(missCase{Size: size, Chunks: cs}) })
		if ctx.Expired() {
			rep.Truncated = true
			return
		}
	}
	// files of gigabytes: every chunk set of the small shapes scaled so that offsets and lengths pass 2^31 and the
	// size approaches 2^32 (size and offsets are 32-bit unsigned on the wire)
	for _, u := range []struct{ unit, maxSize int }{{1 << 28, 10}, {1 << 29, 7}, {0x1FFFFFFF, 8}, {0x33333333, 5}, {0x7FFFFFFF, 2}, {0xFFFFFFFF, 1}} {
		for size := 1; size <= min(u.maxSize, maxSize); size++ {
			chunkSets(size, func(cs [][2]int) { tryMiss(missCase{Size: size, Chunks: cs, Unit: u.unit}) })
		}
	}
	// large: 255 single-byte gaps, adjacent chunks, gap at start / middle / end
	for _, size := range []int{510, 511, 600} {
		var cs [][2]int
		for o := 1; o < size && len(cs) < 255; o += 2 {
			cs = append(cs, [2]int{o, 1})
		}
		tryMiss(missCase{Size: size, Chunks: cs})
		var adj [][2]int
		for o := 0; o+3 <= size; o += 3 {
			adj = append(adj, [2]int{o, 3})
		}
		tryMiss(missCase{Size: size, Chunks: adj})
		tryMiss(missCase{Size: size, Chunks: adj[1:]})
		tryMiss(missCase{Size: size, Chunks: adj[:len(adj)-1]})
		tryMiss(missCase{Size: size, Chunks: append(append([][2]int(nil), adj[:50]...), adj[60:]...)})
	}
	// (c) over the socket
	for di := range c03Dialects {
		for size := 1; size <= 5; size++ {
			chunkSets(size, func(cs [][2]int) {
				if len(cs) > 3 {
					return
				}
				for _, ord := range perms(len(cs)) {
					c := upCase{Dialect: di, AlarmID: "a16", Files: []upFile{{Name: "f16.bin", Data: upData(size, 5)}}, Finish: true, Second: true, Seg: "unit"}
					for _, o := range ord {
						c.Chunks = append(c.Chunks, upChunk{File: 0, Off: cs[o][0], Len: cs[o][1]})
					}
					idx++
					if !ctx.Mine(idx) {
						continue
					}
					sig, diag, reads, _ := upEval(c, "C16")
					rep.Evaluations++
					rep.States++
					rep.Transitions += int64(reads)
					rep.TracesValidated++
					if len(upMissing(size, c.Chunks, 0)) > 0 {
						rep.Nontrivial++
					}
					if sig != "" {
						rep.Outcome("fail:socket:" + sig)
						rep.Add("socket:"+sig, diag, "up", c)
					} else {
						rep.Outcome("ok-socket")
					}
				}
			})
		}
		// two files in one session: every pair of chunk sets (files of 3 and 2 bytes), the chunks of one file before the
		// other's, then 0x1212 for both: the report for a file is about THAT file, whichever file's chunk came last
		var setsA, setsB [][][2]int
		chunkSets(3, func(cs [][2]int) { setsA = append(setsA, cs) })
		chunkSets(2, func(cs [][2]int) { setsB = append(setsB, cs) })
		for _, a := range setsA {
			for _, b := range setsB {
				for _, bFirst := range []bool{false, true} {
					c := upCase{Dialect: di, AlarmID: "a16", Files: []upFile{{Name: "f16a.bin", Data: upData(3, 5)}, {Name: "f16b.bin", Data: upData(2, 9)}}, Finish: true, Second: true, Seg: "unit"}
					var ca, cb []upChunk
					for _, x := range a {
						ca = append(ca, upChunk{File: 0, Off: x[0], Len: x[1]})
					}
					for _, x := range b {
						cb = append(cb, upChunk{File: 1, Off: x[0], Len: x[1]})
					}
					if bFirst {
						c.Chunks = append(cb, ca...)
					} else {
						c.Chunks = append(ca, cb...)
					}
					idx++
					if !ctx.Mine(idx) {
						continue
					}
					sig, diag, reads, _ := upEval(c, "C16")
					rep.Evaluations++
					rep.States++
					rep.Transitions += int64(reads)
					rep.TracesValidated++
					if len(upMissing(3, c.Chunks, 0))+len(upMissing(2, c.Chunks, 1)) > 0 {
						rep.Nontrivial++
					}
					if sig != "" {
						rep.Outcome("fail:socket2:" + sig)
						rep.Add("socket2:"+sig, diag, "up", c)
					} else {
						rep.Outcome("ok-socket-two-files")
					}
				}
			}
		}
	}
}

func toUp(cs [][2]int) []upChunk {
	var out []upChunk
	for _, c := range cs {
		out = append(out, upChunk{Off: c[0], Len: c[1]})
	}
	return out
}

// ---- C19 ----

type nameCase struct {
	Name string `json:"name_hex"`
	// More: further names announced in the same 0x1210 (names that collide after sanitising)
	More  []string `json:"more_names_hex,omitempty"`
	Phone string   `json:"phone"`
	Seg   string   `json:"segmentation"`
}

var nameWrites int // writefile operations of the last nameEval (evidence against vacuity)

func nameEval(c nameCase) (sig, diag string) {
	nameWrites = 0
	name := string(unhx(c.Name))
	uc := upCase{Dialect: 0, AlarmID: "a19", Files: []upFile{{Name: name, Data: upData(4, 1)}}, Chunks: splitChunks(0, 4, 4), Finish: true, Seg: c.Seg, Default: true, Phone: c.Phone}
	if len(name) > 50 {
		uc.Chunks = nil // the chunk header cannot carry the name: announce and finish only
	}
	for i, m := range c.More {
		uc.Files = append(uc.Files, upFile{Name: string(unhx(m)), Data: upData(3, byte(i+2))})
		uc.Chunks = append(uc.Chunks, splitChunks(i+1, 3, 3)...)
	}
	r := upRun(uc)
	if r.panicked != "" {
		return "panic:" + vc.PanicSite(r.panicked) + ":" + vc.PanicClass(r.panicked), fmt.Sprintf("default file handler session panicked for name %q: %s", name, r.panicked)
	}
	phone := ref.PhoneString(ref.BCD(c.Phone, 6))
	allowed := filepath.Join("/sandbox", phone) + "/"
	for _, a := range r.accesses {
		switch a.Op {
		case "writefile", "openfile", "mkdirall", "mkdir", "rename-to", "remove", "removeall":
		default:
			continue
		}
		if a.Op == "writefile" {
			nameWrites++
		}
		if a.Op == "openfile" && a.Clean == "/sandbox/file.log" {
			continue // the handler's own log
		}
		if a.Op == "mkdirall" && a.Clean+"/" == allowed {
			continue
		}
		if !strings.HasPrefix(a.Clean, allowed) {
			return "escapes-directory", fmt.Sprintf("announced name %q (phone %s): handler performs %s on %q, outside %q", name, phone, a.Op, a.Clean, allowed)
		}
	}
	return "", ""
}

func c19Run(ctx *vc.Ctx, rep *vc.Report) {
	var names []string
	sp := newStrSpace([]byte{'a', '.', '/'}, 6)
	buf := make([]byte, 0, 8)
	for i := int64(1); i < sp.total; i++ {
		names = append(names, string(sp.at(i, buf)))
	}
	base := append([]string(nil), names...)
	for _, n := range base {
		if len(n) <= 4 {
			names = append(names, "/"+n, n+"\x00.jpg", "a\x00/"+n)
		}
	}
	// the other separator a terminal may use, in every arrangement with dots, slashes and a letter
	sp2 := newStrSpace([]byte{'a', '.', '/', '\\'}, 5)
	for i := int64(1); i < sp2.total; i++ {
		if n := string(sp2.at(i, buf)); strings.Contains(n, "\\") {
			names = append(names, n)
		}
	}
	// every byte value in the places where a separator would matter
	for b := 0; b < 256; b++ {
		x := string([]byte{byte(b)})
		names = append(names, ".."+x+"e", ".."+x+".."+x+"e", x+"../e", "a"+x+"../../e", x)
	}
	for k := 1; k <= 85; k += 7 {
		n := strings.Repeat("../", k)
		if len(n)+1 <= 255 {
			names = append(names, n+"x")
		}
	}
	names = append(names, "../file.log", "../../etc/passwd", "/etc/passwd", "..", ".", "./..", "a/../../x", strings.Repeat("a", 50), strings.Repeat("../", 16)+"xy", strings.Repeat("a/", 100)+"b")
	sort.Strings(names)
	names = slices.Compact(names)
	var idx int64
	for _, phone := range []string{"13800138000", "1", "999999999999", "0", "000000000010"} {
		// names that climb out and land on a sibling whose name starts with this terminal's own directory name
		ph := ref.PhoneString(ref.BCD(phone, 6))
		sib := []string{"../" + ph + "1/x.jpg", "../" + ph + ".bak/z.bin", "../" + ph + "_note", "../" + ph, "../" + ph + "/../" + ph + "x/y", "a/../../" + ph + "0/f"}
		for _, n := range append(append([]string(nil), names...), sib...) {
			for _, seg := range []string{"unit", "all"} {
				idx++
				if !ctx.Mine(idx) {
					continue
				}
				c := nameCase{Name: hx2([]byte(n)), Phone: phone, Seg: seg}
				sig, diag := nameEval(c)
				rep.Evaluations++
				if strings.Contains(n, "..") || strings.Contains(n, "/") {
					rep.Nontrivial++
				}
				if sig != "" {
					rep.Outcome("fail:" + sig)
					rep.Add(sig, diag, "name", c)
				} else if nameWrites > 0 {
					rep.Outcome("ok-written-inside")
				} else {
					rep.Outcome("ok-nothing-written")
				}
				if idx%3001 == 0 {
					rep.Sample(map[string]any{"name": n, "phone": phone})
				}
			}
		}
		if ctx.Expired() {
			rep.Truncated = true
			return
		}
	}
	// several files in one announcement whose names collide once sanitised (same last element reached through different
	// parents): every ordered pair and triple of a menu
	coll := []string{"x.jpg", "../x.jpg", "a/../../x.jpg", "a/x.jpg", "/x.jpg", "./x.jpg", "..//x.jpg", "a/../x.jpg", "..\\x.jpg", "b/../../../x.jpg"}
	for _, phone := range []string{"13800138000", "0"} {
		for i, a := range coll {
			for j, b := range coll {
				if i == j {
					continue
				}
				for k := -1; k < len(coll); k++ {
					if k == i || k == j {
						continue
					}
					idx++
					if !ctx.Mine(idx) {
						continue
					}
					c := nameCase{Name: hx2([]byte(a)), More: []string{hx2([]byte(b))}, Phone: phone, Seg: "unit"}
					if k >= 0 {
						c.More = append(c.More, hx2([]byte(coll[k])))
					}
					sig, diag := nameEval(c)
					rep.Evaluations++
					rep.Nontrivial++
					if sig != "" {
						rep.Outcome("fail:" + sig)
						rep.Add(sig, diag, "name", c)
					} else {
						rep.Outcome("ok-colliding-names")
					}
				}
			}
		}
	}
	c19TwoTerminals(ctx, rep, &idx)
	rep.Count("distinct_names", int64(len(names)))
}

// ---- C19: two terminals uploading at the same time ----

type twoTermCase struct {
	Dialect int   `json:"dialect"`
	Order   int   `json:"order"` // 0: A announces, B announces, A finishes, B finishes; 1: B finishes first
	Choices []int `json:"choices,omitempty"`
}

func twoTermMake(c twoTermCase) func() (func(), any) {
	return func() (func(), any) {
		vnet.Reset()
		vos.Reset("/sandbox")
		vos.Virtual = true
		body := func() {
			mk := func(phone, name string, fill byte) [][]byte {
				uc := upCase{Dialect: c.Dialect, AlarmID: "two", Files: []upFile{{Name: name, Data: upData(4, fill)}}, Chunks: splitChunks(0, 4, 2), Finish: true, Phone: phone}
				u, _ := upUnits(uc, nil)
				return u
			}
			ua, ub := mk("13800000001", "a.jpg", 1), mk("13900000002", "b.jpg", 2)
			pa, pb := vnet.NewConn(), vnet.NewConn()
			vs.GoNamed("att-conn-A", false, func() {
				attachment.VerifRunConnection(pa.C, c03Dialects[c.Dialect], nil, attachment.VerifNewFileEvent())
			})
			vs.GoNamed("att-conn-B", false, func() {
				attachment.VerifRunConnection(pb.C, c03Dialects[c.Dialect], nil, attachment.VerifNewFileEvent())
			})
			pa.Send(ua[0]) // A announces its files
			pa.Expect(1)
			pb.Send(ub[0]) // B announces while A is still uploading
			pb.Expect(1)
			finish := func(p *vnet.Peer, units [][]byte) {
				for _, u := range units[1:] {
					p.Send(u)
				}
				p.Close()
				vs.WaitIdle()
			}
			if c.Order == 0 {
				finish(pa, ua)
				finish(pb, ub)
			} else {
				finish(pb, ub)
				finish(pa, ua)
			}
		}
		return body, nil
	}
}

func twoTermCheck(res *vs.Result, _ any) []vs.Violation {
	if res.Panic != nil {
		return []vs.Violation{{Sig: "two-terminals:panic:" + vc.PanicSite(res.Panic.Value), Msg: res.Panic.Value + "\n" + res.Panic.Stack}}
	}
	want := map[string]string{"a.jpg": "/sandbox/13800000001/", "b.jpg": "/sandbox/13900000002/"}
	written := map[string]bool{}
	for _, a := range vos.Log {
		if a.Op != "writefile" {
			continue
		}
		base := filepath.Base(a.Clean)
		dir, ok := want[base]
		if !ok {
			continue
		}
		written[base] = true
		if !strings.HasPrefix(a.Clean, dir) {
			return []vs.Violation{{Sig: "two-terminals:file-in-another-terminals-directory", Msg: fmt.Sprintf("two terminals upload at the same time: file %s of the terminal whose directory is %s was written to %s", base, dir, a.Clean)}}
		}
	}
	if !written["a.jpg"] || !written["b.jpg"] {
		return []vs.Violation{{Sig: "two-terminals:file-not-stored", Msg: fmt.Sprintf("two complete uploads, files written: %v", written)}}
	}
	return nil
}

// c19TwoTerminals: two sessions with different phone numbers overlap (both announced before either finishes), default file
// handler on each connection, all schedules of the two connection goroutines within 1 deviation.
func c19TwoTerminals(ctx *vc.Ctx, rep *vc.Report, idx *int64) {
	for di := range c03Dialects {
		for order := 0; order < 2; order++ {
			*idx++
			if !ctx.Mine(*idx) {
				continue
			}
			c := twoTermCase{Dialect: di, Order: order}
			x := &vs.Explorer{Name: fmt.Sprintf("c19:two-terminals:%d:%d", di, order), Bound: 1, Make: twoTermMake(c), Check: twoTermCheck, Deadline: ctx.Deadline}
			x.Explore()
			rep.Evaluations += x.Stats.Executions
			rep.Nontrivial += x.Stats.Executions
			if x.Stats.Nondet != "" {
				rep.Nondet = x.Stats.Nondet
			}
			for _, f := range x.Found {
				cc := c
				cc.Choices = f.Choices
				rep.Outcome("fail:" + f.Sig)
				rep.Add(f.Sig, f.Msg, "twoterm", cc)
			}
			if len(x.Found) == 0 {
				rep.Outcome("ok-two-terminals")
			}
		}
	}
}
