package checks

import (
	"bytes"
	"encoding/hex"
	"fmt"
)

// exact returns a copy of b with cap == len, so that any read beyond the
// slice's length panics instead of silently reading a neighbour.
func exact(b []byte) []byte {
	out := make([]byte, len(b), len(b))
	copy(out, b)
	return out[:len(b):len(b)]
}

// padded returns b placed in a larger buffer whose spare capacity holds fill.
func padded(b []byte, fill byte, extra int) []byte {
	buf := bytes.Repeat([]byte{fill}, len(b)+extra)
	copy(buf, b)
	return buf[:len(b)]
}

func hx(b []byte) string {
	if len(b) > 96 {
		return hex.EncodeToString(b[:48]) + fmt.Sprintf("..(%d bytes)..", len(b)) + hex.EncodeToString(b[len(b)-24:])
	}
	return hex.EncodeToString(b)
}

func unhx(s string) []byte {
	b, _ := hex.DecodeString(s)
	return b
}

// strings over an alphabet, index -> string (bijective base-k numbering of
// all strings of length 0..maxLen, shortest first).
type strSpace struct {
	alpha  []byte
	maxLen int
	starts []int64 // starts[l] = index of the first string of length l
	total  int64
}

func newStrSpace(alpha []byte, maxLen int) *strSpace {
	s := &strSpace{alpha: alpha, maxLen: maxLen}
	n := int64(1)
	for l := 0; l <= maxLen; l++ {
		s.starts = append(s.starts, s.total)
		s.total += n
		n *= int64(len(alpha))
	}
	return s
}

func (s *strSpace) at(i int64, buf []byte) []byte {
	l := 0
	for l+1 <= s.maxLen && i >= s.starts[l+1] {
		l++
	}
	i -= s.starts[l]
	buf = buf[:0]
	for k := 0; k < l; k++ {
		buf = append(buf, 0)
	}
	for k := l - 1; k >= 0; k-- {
		buf[k] = s.alpha[i%int64(len(s.alpha))]
		i /= int64(len(s.alpha))
	}
	return buf
}

func hx2(b []byte) string { return hex.EncodeToString(b) }

func hashBytes(b []byte) uint64 {
	h := uint64(14695981039346656037)
	for _, x := range b {
		h ^= uint64(x)
		h *= 1099511628211
	}
	return h
}
