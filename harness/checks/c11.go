package checks

import (
	"encoding/json"
	"errors"
	"fmt"
	"sort"
	"strings"
	"time"

	"github.com/anishathalye/porcupine"
	"github.com/cuteLittleDevil/go-jt808/service"
	"github.com/cuteLittleDevil/go-jt808/shared/consts"
	"verif/harness/ref"
	"verif/harness/vc"
	"verif/harness/vnet"
	"verif/harness/vs"
)

// C11 - session registry: at most one live connection per terminal key (E1 + porcupine).

type regConn struct {
	Phone string `json:"phone"`
	// HB: heartbeats sent after the first message
	HB int `json:"heartbeats"`
	// Close: the terminal closes after its last message was answered
	Close bool `json:"close,omitempty"`
	// After: dial only after connection #After has been announced as left (-1: at once)
	After int `json:"after"`
	// AfterJoin: dial only after connection #AfterJoin joined successfully (-1: at once)
	AfterJoin int `json:"after_join"`
	// Invalid (scenarios with a custom key function only): heartbeats sent BEFORE the register message; the key
	// function yields no key for them, so the connection is served but not joined yet
	Invalid int `json:"keyless_heartbeats_first,omitempty"`
	// NoRegister: the register message is never sent (the connection never joins)
	NoRegister bool `json:"no_register,omitempty"`
	// Coalesce: the first message and the first heartbeat after it leave in ONE write (the server's first read on
	// the connection holds two frames)
	Coalesce bool `json:"first_two_frames_in_one_write,omitempty"`
}

type regCall struct {
	Key string `json:"key"`
	// AfterJoin: call only after connection #AfterJoin joined (-1: at once)
	AfterJoin int `json:"after_join"`
	AfterLeft int `json:"after_left"`
}

type regScn struct {
	Name  string    `json:"name"`
	Conns []regConn `json:"conns"`
	Calls []regCall `json:"calls"`
	// RegKey: the server runs with service.WithKeyFunc: only a register message (0x0100) yields a key, "dev-"+phone;
	// every other first message leaves the connection unjoined (join callback with a key-invalid error)
	RegKey bool `json:"key_from_register_message,omitempty"`
}

// regKeyFunc is the custom key function of the RegKey scenarios.
func regKeyFunc(m *service.Message) (string, bool) {
	if m == nil || m.JTMessage == nil || m.JTMessage.Header == nil || m.JTMessage.Header.ID != 0x0100 {
		return "", false
	}
	return "dev-" + m.JTMessage.Header.TerminalPhoneNo, true
}

type regRun struct {
	scn   regScn
	w     *world
	peers []*vnet.Peer // by script index
	dialN []int        // script index -> connection index (dial order), -1 = not dialled
	sent  [][]uint16   // serials sent per script
}

//go:norace
func (r *regRun) setPeer(i int, p *vnet.Peer) { r.peers[i] = p; r.dialN[i] = p.C.Index }

//go:norace
func (r *regRun) addSent(i int, s uint16) { r.sent[i] = append(r.sent[i], s) }

type evWaiter struct {
	r    *regRun
	conn int    // script index
	kind string // "join-ok" | "leave"
}

//go:norace
func (e evWaiter) Ready() bool {
	ci := e.r.dialN[e.conn]
	if ci < 0 {
		return false
	}
	for _, ev := range e.r.w.ev {
		if ev.Conn != ci {
			continue
		}
		if e.kind == "join-ok" && ev.Kind == "join" && ev.Err == nil {
			return true
		}
		if e.kind == "leave" && ev.Kind == "leave" {
			return true
		}
	}
	return false
}

func regMake(scn regScn) func() (func(), any) {
	return func() (func(), any) {
		vnet.Reset()
		r := &regRun{scn: scn, peers: make([]*vnet.Peer, len(scn.Conns)), dialN: make([]int, len(scn.Conns)), sent: make([][]uint16, len(scn.Conns))}
		for i := range r.dialN {
			r.dialN[i] = -1
		}
		body := func() {
			wo := worldOpts{}
			if scn.RegKey {
				wo.keyFunc = regKeyFunc
			}
			r.w = startWorld(wo)
			for i, c := range scn.Conns {
				i, c := i, c
				vs.GoNamed(fmt.Sprintf("term%d", i), false, func() {
					if c.After >= 0 {
						vs.Block(&vs.Op{Kind: "hwait-left", W: evWaiter{r, c.After, "leave"}})
					}
					if c.AfterJoin >= 0 {
						vs.Block(&vs.Op{Kind: "hwait-join", W: evWaiter{r, c.AfterJoin, "join-ok"}})
					}
					p := vnet.Dial(srvAddr)
					r.setPeer(i, p)
					ser := uint16(i * 100)
					nrep := 0
					if scn.RegKey {
						for k := 0; k < c.Invalid; k++ {
							ser++
							p.Send(hbFrame(false, c.Phone, ser))
							r.addSent(i, ser)
							nrep++
							p.Expect(nrep)
							if p.C.Closed() {
								return
							}
						}
						if c.NoRegister {
							if c.Close {
								p.Close()
							}
							return
						}
						ser++
						p.Send(ref.Encode(ref.TermHeader(0x0100, false, c.Phone, ser), ref.SampleBody(0x0100, false, c.Phone, 0)))
						nrep++
						p.Expect(nrep)
						if p.C.Closed() {
							return
						}
					}
					for k := 0; k <= c.HB; k++ {
						if scn.RegKey && k == c.HB {
							break // the register message stands for the first message
						}
						ser++
						if c.Coalesce && k == 0 && c.HB >= 1 && !scn.RegKey {
							two := append(hbFrame(false, c.Phone, ser), hbFrame(false, c.Phone, ser+1)...)
							r.addSent(i, ser)
							ser++
							r.addSent(i, ser)
							p.Send(two)
							k++
							nrep += 2
							p.Expect(nrep)
							if p.C.Closed() {
								return
							}
							continue
						}
						p.Send(hbFrame(false, c.Phone, ser))
						r.addSent(i, ser)
						nrep++
						p.Expect(nrep)
						if p.C.Closed() {
							return
						}
					}
					if c.Close {
						p.Close()
					}
				})
			}
			for i, c := range scn.Calls {
				c := c
				cr := r.w.newCall(fmt.Sprintf("caller%d", i), c.Key, 0x8104)
				cr.TimeoutMs = 50
				vs.GoNamed(cr.Name, false, func() {
					if c.AfterJoin >= 0 {
						vs.Block(&vs.Op{Kind: "hwait-join", W: evWaiter{r, c.AfterJoin, "join-ok"}})
					}
					if c.AfterLeft >= 0 {
						vs.Block(&vs.Op{Kind: "hwait-left", W: evWaiter{r, c.AfterLeft, "leave"}})
					}
					cr.begin()
					m := r.w.srv.SendActiveMessage(service.NewActiveMessage(c.Key, consts.P8104QueryTerminalParams, nil, 50*time.Millisecond))
					var s snap
					if m != nil {
						s = takeSnap(m)
					}
					cr.end(m, s)
				})
			}
		}
		return body, r
	}
}

// ---- sequential registry model for porcupine ----

type regIn struct {
	Op   string // join leave write
	Key  string
	Conn int
}

type regOut struct {
	OK   bool // join accepted
	Conn int  // write: routed to (-1 = not exist)
}

func regState(s any) string { return s.(string) }

func regParse(s string) map[string]int {
	m := map[string]int{}
	if s == "" {
		return m
	}
	for _, kv := range strings.Split(s, ";") {
		var k string
		var v int
		i := strings.LastIndex(kv, "=")
		k = kv[:i]
		fmt.Sscanf(kv[i+1:], "%d", &v)
		m[k] = v
	}
	return m
}

func regFmt(m map[string]int) string {
	var ks []string
	for k := range m {
		ks = append(ks, k)
	}
	sort.Strings(ks)
	var parts []string
	for _, k := range ks {
		parts = append(parts, fmt.Sprintf("%s=%d", k, m[k]))
	}
	return strings.Join(parts, ";")
}

var regModel = porcupine.Model{
	Init: func() interface{} { return "" },
	Step: func(state, input, output interface{}) (bool, interface{}) {
		m := regParse(state.(string))
		in, out := input.(regIn), output.(regOut)
		switch in.Op {
		case "join":
			if _, ok := m[in.Key]; ok {
				return !out.OK, state
			}
			if !out.OK {
				return false, state
			}
			m[in.Key] = in.Conn
			return true, regFmt(m)
		case "leave":
			if m[in.Key] == in.Conn {
				if _, ok := m[in.Key]; ok {
					delete(m, in.Key)
				}
			}
			return true, regFmt(m)
		case "write":
			if c, ok := m[in.Key]; ok {
				return out.Conn == c, state
			}
			return out.Conn == -1, state
		}
		return false, state
	},
	Equal: func(a, b interface{}) bool { return a.(string) == b.(string) },
	DescribeOperation: func(input, output interface{}) string {
		return fmt.Sprintf("%+v -> %+v", input, output)
	},
}

func regCheck(res *vs.Result, user any) []vs.Violation {
	r := user.(*regRun)
	allow := func(b vs.Blocked) bool {
		return serverIdle(b) || strings.HasPrefix(b.Thread, "term")
	}
	out := baseViolations(res, allow)
	if len(out) > 0 {
		return out
	}
	add := func(sig, msg string) { out = append(out, vs.Violation{Sig: sig, Msg: msg}) }
	conns := vnet.Conns()
	// per connection: events
	type cinfo struct {
		firstRead, joinStep, leaveStep int
		joinOK, joinSeen, leaveSeen    bool
		joinCnt, leaveCnt              int
		key, leaveKey                  string
		lastBeforeLeave                int
		keyless                        int
	}
	info := make([]*cinfo, len(conns))
	for i := range info {
		info[i] = &cinfo{firstRead: -1}
	}
	for _, e := range r.w.ev {
		if e.Conn >= len(info) {
			continue
		}
		ci := info[e.Conn]
		switch e.Kind {
		case "hread":
			if ci.firstRead < 0 {
				ci.firstRead = e.Step
			}
		case "join":
			if r.scn.RegKey && e.Err != nil && e.Key == "" && !strings.Contains(e.Err.Error(), "exist") {
				// no key for this message (custom key function): the connection goes on unjoined, nothing to count
				ci.keyless++
				continue
			}
			ci.joinCnt++
			ci.joinSeen = true
			ci.joinStep = e.Step
			ci.joinOK = e.Err == nil
			ci.key = e.Key
		case "leave":
			ci.leaveCnt++
			ci.leaveSeen = true
			ci.leaveStep = e.Step
			ci.leaveKey = e.Key
		}
		// stop() runs in the reader goroutine: the last reader-side callback before the leave
		// callback is a sound (early) bound for the call time of leave
		if !ci.leaveSeen && (e.Kind == "hread" || e.Kind == "tread" || e.Kind == "join" || e.Kind == "unsupported") {
			ci.lastBeforeLeave = e.Step
		}
	}
	var ops []porcupine.Operation
	end := int64(res.Steps + 10)
	for i, ci := range info {
		if ci.joinSeen {
			if ci.joinCnt != 1 {
				add("join-callback-count", fmt.Sprintf("connection %d: OnJoinEvent called %d times", i, ci.joinCnt))
			}
			ops = append(ops, porcupine.Operation{ClientId: i, Input: regIn{"join", ci.key, i}, Call: int64(max(ci.firstRead, 0)), Output: regOut{OK: ci.joinOK}, Return: int64(ci.joinStep)})
			if !ci.joinOK {
				// a refused connection is closed by the server
				if !conns[i].Closed() {
					add("refused-not-closed", fmt.Sprintf("connection %d was refused (key %s online) but its socket was not closed", i, ci.key))
				}
			}
		}
		if ci.joinOK {
			if ci.leaveSeen {
				if ci.leaveCnt != 1 {
					add("leave-callback-count", fmt.Sprintf("connection %d: OnLeaveEvent called %d times", i, ci.leaveCnt))
				}
				if ci.leaveKey != ci.key {
					add("leave-key", fmt.Sprintf("connection %d joined as %q and left as %q", i, ci.key, ci.leaveKey))
				}
				ops = append(ops, porcupine.Operation{ClientId: i, Input: regIn{"leave", ci.key, i}, Call: int64(ci.lastBeforeLeave), Output: regOut{}, Return: int64(ci.leaveStep)})
			} else if conns[i].Closed() {
				add("left-without-callback", fmt.Sprintf("connection %d (key %s) ended without OnLeaveEvent", i, ci.key))
			}
		}
	}
	for ci, c := range r.w.calls {
		target := -2
		var serial uint16
		if c.Done && c.Reply != nil {
			if errors.Is(c.Reply.ExtensionFields.Err, service.ErrNotExistKey) {
				target = -1
				if c.TimeoutMs > 0 && res.TimerEarly == 0 && c.ClockDone-c.ClockStart >= int64(c.TimeoutMs)*1e6 { // see cmdCheck
					add("not-exist-not-at-once", fmt.Sprintf("%s: ErrNotExistKey came only after %d ms of virtual time (timeout %d ms): the refusal waited out the timer", c.Name, (c.ClockDone-c.ClockStart)/1e6, c.TimeoutMs))
				}
			} else if pf, err := ref.Decode(c.Snap.PlatData); err == nil {
				serial = pf.Serial
				for i, cn := range conns {
					for _, o := range cn.Out {
						if f, err := ref.Decode(o.Data); err == nil && f.ID == 0x8104 && f.Serial == serial && string(f.PhoneBCD) == string(pf.PhoneBCD) {
							if target >= 0 && target != i {
								add("command-on-two-sockets", fmt.Sprintf("%s: command frame appears on connections %d and %d", c.Name, target, i))
							}
							target = i
						}
					}
				}
			}
		}
		if !c.Done || target == -2 {
			// stranded or failed before being written: C13's subject; the routing decision is unobservable
			continue
		}
		ops = append(ops, porcupine.Operation{ClientId: len(conns) + ci, Input: regIn{"write", c.Key, -1}, Call: int64(c.StepStart), Output: regOut{Conn: target}, Return: int64(c.StepDone)})
		_ = end
	}
	if len(out) > 0 {
		return out
	}
	if !porcupine.CheckOperations(regModel, ops) {
		var d []string
		sort.Slice(ops, func(i, j int) bool { return ops[i].Call < ops[j].Call })
		for _, o := range ops {
			d = append(d, fmt.Sprintf("[%d,%d] %+v -> %+v", o.Call, o.Return, o.Input, o.Output))
		}
		sig := "registry-not-linearizable"
		// classify: two accepted joins of one key without a leave in between
		add(sig, "join/leave/route history is not linearizable w.r.t. a key->connection map:\n"+strings.Join(d, "\n"))
		return out
	}
	// established sessions keep being served: every heartbeat of a joined, still open connection got its reply
	for si, sc := range r.scn.Conns {
		ci := r.dialN[si]
		if ci < 0 || !info[ci].joinOK {
			continue
		}
		gen := 0
		for _, o := range conns[ci].Out {
			if f, err := ref.Decode(o.Data); err == nil && f.ID == 0x8001 {
				gen++
			}
		}
		if gen != len(r.sent[si]) && !(sc.Close) {
			add("owner-disturbed", fmt.Sprintf("connection %d (owner of %s) sent %d heartbeats and got %d replies", ci, sc.Phone, len(r.sent[si]), gen))
		}
	}
	return out
}

func c11Scenarios(thorough bool) []regScn {
	A, B := "13800138000", "13900139000"
	n := func(name string, conns []regConn, calls []regCall) regScn {
		return regScn{Name: "c11:" + name, Conns: conns, Calls: calls}
	}
	c := func(phone string, hb int, close bool, after, afterJoin int) regConn {
		return regConn{Phone: phone, HB: hb, Close: close, After: after, AfterJoin: afterJoin}
	}
	out := []regScn{
		n("dup-join", []regConn{c(A, 1, false, -1, -1), c(A, 0, false, -1, 0)}, []regCall{{Key: A, AfterJoin: 0, AfterLeft: -1}}),
		n("dup-join-race", []regConn{c(A, 1, false, -1, -1), c(A, 1, false, -1, -1)}, nil),
		n("leave-rejoin", []regConn{c(A, 0, true, -1, -1), c(A, 1, false, 0, -1)}, []regCall{{Key: A, AfterJoin: 1, AfterLeft: -1}}),
		n("leave-vs-dup", []regConn{c(A, 0, true, -1, -1), c(A, 1, false, -1, 0)}, nil),
		n("two-keys", []regConn{c(A, 0, true, -1, -1), c(B, 1, false, -1, -1)}, []regCall{{Key: B, AfterJoin: 1, AfterLeft: -1}, {Key: A, AfterJoin: 0, AfterLeft: -1}}),
		n("send-vs-leave", []regConn{c(A, 0, true, -1, -1)}, []regCall{{Key: A, AfterJoin: 0, AfterLeft: -1}, {Key: "nobody", AfterJoin: -1, AfterLeft: -1}}),
		n("send-after-leave", []regConn{c(A, 0, true, -1, -1)}, []regCall{{Key: A, AfterJoin: -1, AfterLeft: 0}}),
		n("refused-left-then-send", []regConn{c(A, 1, false, -1, -1), c(A, 0, false, -1, 0)}, []regCall{{Key: A, AfterJoin: -1, AfterLeft: 1}}),
		n("refused-left-then-third", []regConn{c(A, 1, false, -1, -1), c(A, 0, false, -1, 0), c(A, 0, false, 1, -1)}, nil),
		n("refused-then-owner-served", []regConn{c(A, 2, false, -1, -1), c(A, 0, false, -1, 0), c(B, 0, false, -1, -1)}, []regCall{{Key: A, AfterJoin: 0, AfterLeft: -1}}),
	}
	// the first read of a connection holds two frames
	out = append(out,
		n("first-read-two-frames", []regConn{{Phone: A, HB: 2, After: -1, AfterJoin: -1, Coalesce: true}}, []regCall{{Key: A, AfterJoin: 0, AfterLeft: -1}}),
		n("first-read-two-frames-dup", []regConn{{Phone: A, HB: 1, After: -1, AfterJoin: -1, Coalesce: true}, {Phone: A, HB: 1, After: -1, AfterJoin: 0, Coalesce: true}}, nil),
	)
	// a custom key function (service.WithKeyFunc): the key comes from the register message only
	dA := "dev-" + ref.PhoneString(ref.BCD(A, 6))
	rk := func(s regScn) regScn { s.RegKey = true; return s }
	out = append(out,
		rk(n("regkey-late-join", []regConn{{Phone: A, HB: 1, After: -1, AfterJoin: -1, Invalid: 1}},
			[]regCall{{Key: dA, AfterJoin: 0, AfterLeft: -1}, {Key: ref.PhoneString(ref.BCD(A, 6)), AfterJoin: -1, AfterLeft: -1}})),
		rk(n("regkey-dup", []regConn{{Phone: A, HB: 1, After: -1, AfterJoin: -1}, {Phone: A, HB: 0, After: -1, AfterJoin: 0, Invalid: 1}},
			[]regCall{{Key: dA, AfterJoin: 0, AfterLeft: -1}})),
		rk(n("regkey-leave-rejoin", []regConn{{Phone: A, HB: 0, After: -1, AfterJoin: -1, Close: true}, {Phone: A, HB: 1, After: 0, AfterJoin: -1, Invalid: 1}},
			[]regCall{{Key: dA, AfterJoin: 1, AfterLeft: -1}})),
		rk(n("regkey-keyless-leaves", []regConn{{Phone: A, HB: 1, After: -1, AfterJoin: -1}, {Phone: A, After: -1, AfterJoin: 0, Invalid: 1, NoRegister: true, Close: true}},
			[]regCall{{Key: dA, AfterJoin: 0, AfterLeft: -1}})),
	)
	if thorough {
		out = append(out,
			n("three-same-key", []regConn{c(A, 0, true, -1, -1), c(A, 0, true, -1, -1), c(A, 1, false, -1, -1)}, nil),
			n("rejoin-chain", []regConn{c(A, 0, true, -1, -1), c(A, 0, true, 0, -1), c(A, 1, false, 1, -1)}, []regCall{{Key: A, AfterJoin: -1, AfterLeft: -1}}),
		)
	}
	return out
}

type regCase struct {
	Scn     regScn `json:"scenario"`
	Choices []int  `json:"choices"`
}

func init() {
	vc.Register(&vc.Check{
		ID: "C11", Level: "model_checking", SingleProc: true,
		Rule: "10 (thorough 12) skeletons of <=6 registry events over <=3 connections and two keys (duplicate-key connect after/racing the owner's join, close then reconnect, close racing a duplicate, two keys, SendActiveMessage racing a leave / after a leave / to an absent key, a connection whose first read holds two frames - alone and as the refused duplicate) plus 4 skeletons on a server configured with a custom key function (service.WithKeyFunc: only the register message yields a key; keyless heartbeats first, a duplicate, leave and rejoin, a connection that never gets a key and leaves while the owner is served), each under ALL schedules within the deviation bound (2 quick, 3 thorough); " +
			"per execution the join/leave/route call-return history is checked for linearizability against a sequential key->connection map with porcupine, refused sockets must be closed, join/leave callbacks are counted, the owner's heartbeats must all be answered. Then EVERY thread interleaving (no preemption bound) of every skeleton with the default environment answers (timers fire when nothing else can run, first ready select case (moving on to the next when the same select is met again), writes succeed), using a cache of happens-before state keys: each state is expanded once, every state and transition is executed at least once (not every path: the linearizability of call/return intervals is decided by the bounded search, the cached search adds the state and transition oracles); the cache is validated per run by a self-test (cached search = every-schedule search on 20 programs that fail when a component of the key is removed) and by comparing a harness digest whenever a key is met again; the flag exhaustive refers to the deviation-bounded families; for the cached pass the counters unbounded_* say how many scenarios closed and how many stopped at the state limit (quick 20000 states, thorough 400000). Non-trivial = schedule with >=1 deviation",
		Assumptions: []string{"call time of join = first read callback of the connection, of leave = its last earlier callback (intervals are enlarged, never shrunk, so no false alarm)",
			"commands whose caller never returned are C13's subject and are left out of the history"},
		Run: func(ctx *vc.Ctx, rep *vc.Report) {
			bound := 2
			if ctx.Thorough() {
				bound = 3
			}
			for _, s := range c11Scenarios(ctx.Thorough()) {
				if ctx.Expired() || rep.TooMany() {
					rep.Truncated = rep.Truncated || ctx.Expired()
					return
				}
				s := s
				check := func(res *vs.Result, user any) []vs.Violation {
					v := regCheck(res, user)
					rep.Outcome("joins:" + joinOutcomes(user.(*regRun)))
					return v
				}
				x := &vs.Explorer{Name: s.Name, Bound: bound, Make: regMake(s), Check: check, KeepKeys: true,
					Deadline: ctx.Deadline, Shard: ctx.Worker, NShards: ctx.NWorkers}
				if bound >= 2 {
					x.ShardLvl = 2
				}
				x.Explore()
				mergeStats(rep, x, bound, "reg", func(f vs.Found) any { return regCase{s, f.Choices} })
				if ctx.Worker == 0 {
					rep.Sample(map[string]any{"scenario": s.Name, "conns": s.Conns, "calls": s.Calls, "bound": bound})
				}
			}
			// every thread interleaving of each skeleton (no preemption bound) with the state cache. The cache keeps one
			// path per happens-before state, so the linearizability of call/return INTERVALS is decided by the bounded
			// search above; here every state and transition is visited (panics, refused sockets left open, callback
			// counts, unanswered heartbeats, and linearizability of the one history that reaches each state)
			var idx int64
			maxStates, env := 20000, 0
			if ctx.Thorough() {
				maxStates = 400000 // the three-connection skeletons do not close below a million states either
			}
			for _, s := range c11Scenarios(ctx.Thorough()) {
				if ctx.Expired() || rep.TooMany() {
					if ctx.Expired() {
						rep.Count("unbounded_pass_cut_short_by_time_cap", 1)
					}
					return
				}
				s := s
				exploreAll(ctx, rep, &idx, s.Name, regMake(s), regCheck, "reg", func(f vs.Found) any { return regCase{s, f.Choices} }, maxStates, envBoundOf(env))
			}
		},
		Drivers: map[string]func(json.RawMessage) string{"reg": func(raw json.RawMessage) string {
			var c regCase
			if err := json.Unmarshal(raw, &c); err != nil {
				return err.Error()
			}
			x := &vs.Explorer{Name: c.Scn.Name, Make: regMake(c.Scn), Check: regCheck}
			res, user, _ := x.RunOnce(c.Choices, nil, true)
			s := ""
			for _, v := range regCheck(res, user) {
				s += v.Sig + ": " + v.Msg + "\n"
			}
			return s
		}},
	})
}

func joinOutcomes(r *regRun) string {
	s := ""
	for _, e := range r.w.ev {
		switch e.Kind {
		case "join":
			if e.Err == nil {
				s += fmt.Sprintf("J%d", e.Conn)
			} else {
				s += fmt.Sprintf("R%d", e.Conn)
			}
		case "leave":
			s += fmt.Sprintf("L%d", e.Conn)
		}
	}
	return s
}
