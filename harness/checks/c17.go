package checks

import (
	"bytes"
	"encoding/json"
	"errors"
	"fmt"

	"github.com/cuteLittleDevil/go-jt808/protocol/jt1078"
	"verif/harness/ref"
	"verif/harness/vc"
)

// C17 - JT1078 RTP packets are decoded as the standard prescribes (E2).

func c17Compare(p *jt1078.Packet, w ref.RTP, fresh bool) (field string, got, want any) {
	chk := []struct {
		n    string
		g, w any
	}{
		{"ID", p.ID, "01cd"},
		{"V", p.Flag.V, w.Attr >> 6}, {"P", p.Flag.P, (w.Attr >> 5) & 1}, {"X", p.Flag.X, (w.Attr >> 4) & 1}, {"CC", p.Flag.CC, w.Attr & 15},
		{"M", p.Flag.M, w.MPT >> 7}, {"PT", uint8(p.Flag.PT), w.MPT & 0x7F},
		{"Seq", p.Seq, w.Seq}, {"Sim", p.Sim, ref.PhoneString(w.SimBCD)}, {"LogicChannel", p.LogicChannel, w.Channel},
		{"DataType", uint8(p.DataType), w.DataType}, {"SubcontractType", uint8(p.SubcontractType), w.SubMark},
		{"DataBodyLen", int(p.DataBodyLen), len(w.Payload)},
	}
	for _, c := range chk {
		if fmt.Sprint(c.g) != fmt.Sprint(c.w) {
			return c.n, c.g, c.w
		}
	}
	if !bytes.Equal(p.Body, w.Payload) {
		return "Body", hx(p.Body), hx(w.Payload)
	}
	// fields the packet does not carry are zero, whatever the Packet value decoded before
	wt, wi, wf := w.Time, w.IFrame, w.Frame
	if !w.HasTime() {
		wt = 0
	}
	if !w.HasIntervals() {
		wi, wf = 0, 0
	}
	if p.Timestamp != wt {
		return "Timestamp", p.Timestamp, wt
	}
	if p.LastIFrameInterval != wi || p.LastFrameInterval != wf {
		return "Intervals", [2]uint16{p.LastIFrameInterval, p.LastFrameInterval}, [2]uint16{wi, wf}
	}
	_ = fresh
	return "", nil, nil
}

// c17Stream decodes stream repeatedly from the front, with a fresh Packet per
// step (reuse=false) or one reused Packet, and compares with the reference.
func c17Stream(stream []byte, reuse bool) (diag, sig string, packets int) {
	data := exact(stream)
	rdata := stream
	mode := "fresh"
	if reuse {
		mode = "reused"
	}
	pk := jt1078.NewPacket()
	for step := 0; ; step++ {
		if !reuse {
			pk = jt1078.NewPacket()
		}
		want, wrest, werr := ref.DecodeRTP(rdata)
		var rest []byte
		var err error
		if p := vc.Catch(func() { rest, err = pk.Decode(data) }); p != "" {
			return fmt.Sprintf("%s packet, step %d: Decode panicked: %s", mode, step, p), mode + ":panic:" + vc.PanicSite(p), packets
		}
		if werr != nil {
			if len(rdata) == 0 && step > 0 {
				return "", "", packets // clean end of stream (loop ends before decoding empty data)
			}
			if err == nil {
				return fmt.Sprintf("%s packet, step %d: %d bytes that are not a complete packet (%v) were decoded as one (type %d, body %d bytes)", mode, step, len(rdata), werr, pk.DataType, len(pk.Body)),
					mode + ":accepted-incomplete:" + werr.Error(), packets
			}
			var wantErr error
			switch werr {
			case ref.ErrRTPShortHead:
				wantErr = jt1078.ErrHeaderLength2Short
			case ref.ErrRTPShortBody:
				wantErr = jt1078.ErrBodyLength2Short
			case ref.ErrRTPMarker:
				wantErr = jt1078.ErrUnqualifiedData
			}
			if !errors.Is(err, wantErr) {
				return fmt.Sprintf("%s packet, step %d: %d bytes (%v): got error %v, want %v", mode, step, len(rdata), werr, err, wantErr),
					mode + ":wrong-error:" + werr.Error(), packets
			}
			return "", "", packets
		}
		if err != nil {
			return fmt.Sprintf("%s packet, step %d: complete packet (type %d, payload %d) rejected: %v", mode, step, want.DataType, len(want.Payload), err),
				fmt.Sprintf("%s:rejected-valid:type=%d", mode, c17TypeClass(want.DataType)), packets
		}
		if f, g, w := c17Compare(pk, want, !reuse); f != "" {
			return fmt.Sprintf("%s packet, step %d (type %d): field %s = %v, standard says %v", mode, step, want.DataType, f, g, w),
				fmt.Sprintf("%s:field:%s:type=%d", mode, f, c17TypeClass(want.DataType)), packets
		}
		if !bytes.Equal(rest, wrest) {
			return fmt.Sprintf("%s packet, step %d: remainder %s, want %s", mode, step, hx(rest), hx(wrest)), mode + ":remainder", packets
		}
		if len(wrest) == 0 && len(rest) != 0 {
			return "remainder not empty at end", mode + ":remainder-end", packets
		}
		packets++
		if len(wrest) == 0 {
			return "", "", packets
		}
		data, rdata = exact(rest), wrest
	}
}

func c17TypeClass(t byte) int {
	if t > 5 {
		return 5 // reserved types share one class
	}
	return int(t)
}

func c17Menu() []ref.RTP {
	var out []ref.RTP
	sims := [][]byte{unhx("000000000000"), unhx("013800138000"), unhx("303163643031")}
	k := 0
	for _, dt := range []byte{0, 1, 2, 3, 4, 5, 15} {
		for _, pl := range []int{0, 1, 5} {
			k++
			p := ref.RTP{Attr: 0x81, MPT: []byte{98, 0x80 | 6, 0, 127, 0x80 | 99}[k%5], Seq: []uint16{0, 1, 0xFFFF, 0x3031}[k%4],
				SimBCD: sims[k%3], Channel: []byte{1, 0, 255}[k%3], DataType: dt, SubMark: byte(k % 4),
				Time: []uint64{0, 1, 0xFFFFFFFFFFFFFFFF, 0x3031636430316364}[k%4], IFrame: uint16(k * 257), Frame: uint16(k*3 + 1)}
			p.Payload = bytes.Repeat([]byte{0x30, 0x31, 0x63, 0x64}, 2)[:pl]
			out = append(out, p)
		}
	}
	// payloads around the 950 limit, and payloads that contain a whole header-like marker
	for i, pl := range []int{949, 950, 951} {
		p := ref.RTP{Attr: 0x81, MPT: 98, Seq: uint16(i), SimBCD: sims[1], Channel: 1, DataType: byte(i), SubMark: 1, Time: 7, IFrame: 1, Frame: 2}
		p.Payload = bytes.Repeat([]byte{byte(i + 1)}, pl)
		out = append(out, p)
	}
	inner := ref.RTP{Attr: 0x81, MPT: 6, SimBCD: sims[0], DataType: 3}.Encode()
	out = append(out, ref.RTP{Attr: 0x81, MPT: 98, SimBCD: sims[1], DataType: 4, Payload: inner})
	out = append(out, ref.RTP{Attr: 0x81, MPT: 98, SimBCD: sims[1], DataType: 0, Payload: inner})
	return out
}

type c17Case struct {
	Stream string `json:"stream_hex"`
	Reuse  bool   `json:"reuse"`
}

func init() {
	vc.Register(&vc.Check{
		ID:    "C17",
		Level: "exploration",
		Rule: "single packets: data type 0..15 x sub-package mark 0..15 x PT {0,6,7,19,98,99,127} x M x attr byte {81,00,FF,41} x payload {0,1,2,949,950,951,65535} with rotating SIM/channel/sequence/timestamp/interval menus; two-packet streams whose SIM numbers differ in exactly one BCD byte (3 bases x 6 positions x 5 values, both orders); " +
			"streams: all sequences of 1..2 (thorough 1..3) packets from a 29-packet menu, buffers of 70..141 packets (more than 65535 bytes behind a header, the remainder modulo 65536 below / on / above the payload length), each decoded from the front with a fresh and with one reused Packet, and EVERY prefix of every stream up to 400 bytes (longer: every cut within 3 bytes of a structural boundary); " +
			"arbitrary strings: all strings of length <=5 over {30,31,63,64,00,FF}, all 4-byte heads over that alphabet followed by header-like tails at lengths 15..30. Non-trivial = stream holds >=2 packets or is cut inside a packet",
		Assumptions: []string{"reference reader harness/ref/rtp.go written from JT/T 1078 table 19; reserved data types 5..15 laid out like audio as the property states"},
		Run:         c17Run,
		Drivers: map[string]func(json.RawMessage) string{"c17": func(raw json.RawMessage) string {
			var c c17Case
			_ = json.Unmarshal(raw, &c)
			d, _, _ := c17Stream(unhx(c.Stream), c.Reuse)
			return d
		}},
	})
}

func c17Run(ctx *vc.Ctx, rep *vc.Report) {
	var idx int64
	try := func(stream []byte, class string, nontrivial bool) {
		idx++
		if !ctx.Mine(idx) {
			return
		}
		for _, reuse := range []bool{false, true} {
			diag, sig, n := c17Stream(stream, reuse)
			rep.Evaluations++
			if nontrivial {
				rep.Nontrivial++
			}
			if diag != "" {
				rep.Outcome("fail:" + sig)
				rep.Add(sig, diag, "c17", c17Case{hx2(stream), reuse})
			} else {
				rep.Outcome(fmt.Sprintf("%s:packets=%d", class, min(n, 3)))
			}
		}
		if idx%50021 == 0 {
			rep.Sample(map[string]any{"class": class, "stream": hx(stream)})
		}
	}
	// single packets, field product
	sims := [][]byte{unhx("000000000000"), unhx("013800138000"), unhx("999999999999")}
	k := 0
	for dt := 0; dt < 16; dt++ {
		for sm := 0; sm < 16; sm++ {
			for _, pt := range []byte{0, 6, 7, 19, 98, 99, 127} {
				for m := 0; m < 2; m++ {
					for _, attr := range []byte{0x81, 0x00, 0xFF, 0x41} {
						for _, pl := range []int{0, 1, 2, 949, 950, 951, 65535} {
							k++
							if pl == 65535 && k%16 != 0 && !ctx.Thorough() {
								continue
							}
							p := ref.RTP{Attr: attr, MPT: byte(m<<7) | pt, Seq: []uint16{0, 1, 0xFFFF}[k%3], SimBCD: sims[k%3], Channel: []byte{0, 1, 255}[(k/3)%3],
								DataType: byte(dt), SubMark: byte(sm), Time: []uint64{0, 1, 1 << 63, 0xFFFFFFFFFFFFFFFF}[k%4], IFrame: uint16(k), Frame: uint16(k >> 3)}
							p.Payload = make([]byte, pl)
							for i := range p.Payload {
								p.Payload[i] = byte(i + k)
							}
							try(p.Encode(), "single", false)
						}
					}
				}
			}
		}
		if ctx.Expired() || rep.TooMany() {
			rep.Truncated = ctx.Expired()
			return
		}
	}
	// two packets in one stream whose SIM numbers differ in exactly one BCD byte (either order): every packet carries
	// its own SIM, whatever was decoded before
	for _, base := range sims {
		for j := 0; j < 6; j++ {
			for _, v := range []byte{0x00, 0x01, 0x10, 0x64, 0x99} {
				if base[j] == v {
					continue
				}
				other := append([]byte(nil), base...)
				other[j] = v
				a := ref.RTP{Attr: 0x81, MPT: 98, Seq: 1, SimBCD: base, Channel: 1, DataType: 3, Time: 5, Payload: []byte{1, 2}}.Encode()
				b := ref.RTP{Attr: 0x81, MPT: 98, Seq: 2, SimBCD: other, Channel: 1, DataType: 0, Time: 6, IFrame: 1, Frame: 2, Payload: []byte{3}}.Encode()
				try(append(append([]byte(nil), a...), b...), "sim-pair", true)
				try(append(append([]byte(nil), b...), a...), "sim-pair", true)
			}
		}
	}
	// streams and all their prefixes
	menu := c17Menu()
	enc := make([][]byte, len(menu))
	for i, p := range menu {
		enc[i] = p.Encode()
	}
	maxSeq := 2
	if ctx.Thorough() {
		maxSeq = 3
	}
	var rec func(prefix []int, stream []byte, bounds []int)
	rec = func(prefix []int, stream []byte, bounds []int) {
		if len(prefix) > 0 {
			try(stream, fmt.Sprintf("stream%d", len(prefix)), len(prefix) >= 2)
			isB := map[int]bool{}
			for _, b := range bounds {
				for d := -3; d <= 3; d++ {
					isB[b+d] = true
				}
			}
			for cut := 0; cut < len(stream); cut++ {
				if len(stream) <= 400 || isB[cut] || (ctx.Thorough() && cut%97 == 0) {
					try(stream[:cut], "prefix", true)
				}
			}
		}
		if len(prefix) == maxSeq || ctx.Expired() || rep.TooMany() {
			if ctx.Expired() {
				rep.Truncated = true
			}
			return
		}
		for i := range menu {
			nb := append(append([]int(nil), bounds...), len(stream), len(stream)+16, len(stream)+menu[i].HeaderLen(), len(stream)+len(enc[i]))
			rec(append(prefix, i), append(append([]byte(nil), stream...), enc[i]...), nb)
		}
	}
	rec(nil, nil, nil)
	// long buffers: what is left after a header exceeds 65535 bytes (the length field's own width) and its value modulo
	// 65536 falls below, on and above the payload length
	for _, lead := range []int{0, 1, 100, 805, 806, 807, 950} {
		for _, n := range []int{69, 70, 72, 140} {
			stream := ref.RTP{Attr: 0x81, MPT: 98, SimBCD: sims[0], Channel: 2, DataType: 3, Time: 7, Payload: bytes.Repeat([]byte{0x5A}, lead)}.Encode()
			for k := 0; k < n; k++ {
				stream = append(stream, ref.RTP{Attr: 0x81, MPT: 6, SimBCD: sims[1], Channel: 1, DataType: 3, Seq: uint16(k), Time: uint64(k), Payload: bytes.Repeat([]byte{byte(k)}, 950)}.Encode()...)
			}
			try(stream, "long-buffer", true)
		}
	}
	// arbitrary strings
	sp := newStrSpace([]byte{0x30, 0x31, 0x63, 0x64, 0x00, 0xFF}, 5)
	buf := make([]byte, 0, 8)
	for i := int64(0); i < sp.total; i++ {
		try(append([]byte(nil), sp.at(i, buf)...), "arbitrary-short", false)
	}
	heads := newStrSpace([]byte{0x30, 0x31, 0x63, 0x64, 0x00, 0xFF}, 4)
	valid := ref.RTP{Attr: 0x81, MPT: 98, SimBCD: sims[1], Channel: 1, DataType: 3, Payload: []byte{1, 2, 3, 4}}.Encode()
	for i := heads.starts[4]; i < heads.total; i++ {
		h := append([]byte(nil), heads.at(i, buf)...)
		for _, L := range []int{15, 16, 17, 20, 26, 30} {
			for _, tail := range [][]byte{bytes.Repeat([]byte{0}, 40), bytes.Repeat([]byte{0xFF}, 40), valid[4:]} {
				s := append(append([]byte(nil), h...), tail...)
				if len(s) > L {
					s = s[:L]
				}
				try(s, "arbitrary-head", false)
			}
		}
	}
}
