package checks

import (
	"bytes"
	"encoding/json"
	"fmt"
	"os"
	"os/exec"
	"strings"

	"verif/harness/ref"
	"verif/harness/vc"
	"verif/harness/vnet"
	"verif/harness/vs"
)

// C06 - automatic replies: one per request, correlated, ordered, numbered.

type tmsg struct {
	ID      uint16 `json:"id"`
	V2019   bool   `json:"v2019"`
	Phone   string `json:"phone"`
	Serial  uint16 `json:"serial"`
	Variant int    `json:"variant"`
	// sub-package fields (Total>0: fragmented frame with explicit body)
	Total  uint16 `json:"total,omitempty"`
	Number uint16 `json:"number,omitempty"`
	Body   string `json:"body,omitempty"` // hex; empty = sample body for the ID
}

func (m tmsg) frame() []byte {
	h := ref.TermHeader(m.ID, m.V2019, m.Phone, m.Serial)
	body := ref.SampleBody(m.ID, m.V2019, m.Phone, m.Variant)
	if m.Body != "" {
		body = unhx(m.Body)
	}
	if m.Total > 0 {
		h.Fragmented, h.Total, h.Number = true, m.Total, m.Number
	}
	return ref.Encode(h, body)
}

type convScn struct {
	Name     string   `json:"name"`
	Conns    [][]tmsg `json:"conns"`
	Repeat   int      `json:"repeat,omitempty"` // send Conns[0] this many times (wrap run)
	Coalesce bool     `json:"coalesce,omitempty"`
	Pairs    bool     `json:"pairs,omitempty"`     // two frames per read
	Close    bool     `json:"close,omitempty"`     // the terminal closes after its last frame
	Split    bool     `json:"split,omitempty"`     // every frame is cut in the middle: a read is the tail of one frame + the head of the next
	Stab     bool     `json:"stability,omitempty"` // C09 oracle: kept messages compared at every callback
	Plain    bool     `json:"plain,omitempty"`     // the server's own default handlers and eventer (no recording handlers)
	NoFilter bool     `json:"no_filter,omitempty"` // WithHasSubcontract(false): lone sub-packages reach the handlers (stability oracle only)
	// IdleMs[i]: virtual milliseconds the terminal waits before its i-th frame (one frame per read mode only)
	IdleMs []int `json:"idle_ms,omitempty"`
}

type convRun struct {
	scn convScn
	w   *world
}

func convMake(scn convScn) func() (func(), any) {
	return func() (func(), any) {
		vnet.Reset()
		r := &convRun{scn: scn}
		body := func() {
			wo := worldOpts{stab: scn.Stab, noRecord: scn.Plain}
			if scn.NoFilter {
				off := false
				wo.filter = &off
			}
			r.w = startWorld(wo)
			for ci, msgs := range scn.Conns {
				ci, msgs := ci, msgs
				run := func() {
					p := r.w.dial()
					rep := max(scn.Repeat, 1)
					for k := 0; k < rep; k++ {
						if scn.Coalesce {
							var all []byte
							for _, m := range msgs {
								all = append(all, m.frame()...)
							}
							p.Send(all)
							continue
						}
						if scn.Split {
							var all []byte
							var cuts []int
							for _, m := range msgs {
								f := m.frame()
								cuts = append(cuts, len(all)+len(f)/2)
								all = append(all, f...)
							}
							pos := 0
							for _, c := range append(cuts, len(all)) {
								p.Send(all[pos:c])
								pos = c
							}
							continue
						}
						if scn.Pairs {
							for i := 0; i < len(msgs); i += 2 {
								b := msgs[i].frame()
								if i+1 < len(msgs) {
									b = append(b, msgs[i+1].frame()...)
								}
								p.Send(b)
							}
							continue
						}
						for mi, m := range msgs {
							if rep > 1 {
								m.Serial = uint16(k)
							}
							if mi < len(scn.IdleMs) && scn.IdleMs[mi] > 0 {
								vs.SleepNanos(int64(scn.IdleMs[mi])*1e6, "terminal:idle")
							}
							p.Send(m.frame())
						}
						if rep > 1 {
							p.Drained()
						}
					}
					if scn.Close && scn.NoFilter {
						vs.WaitIdle() // everything the server does with these frames has happened
						p.Close()
					} else if scn.Close {
						p.Expect(len(repliesOf(msgs)))
						p.Close()
					}
				}
				if ci == 0 && len(scn.Conns) == 1 {
					run()
				} else {
					vs.GoNamed(fmt.Sprintf("term%d", ci), false, run)
				}
			}
		}
		return body, r
	}
}

func serverIdle(b vs.Blocked) bool {
	// server goroutines waiting for input: reader in Read, writer in its select
	return b.Kind == "read" || b.Kind == "select"
}

// convCheck is the C06 oracle for one execution.
func convCheck(res *vs.Result, user any) []vs.Violation {
	r := user.(*convRun)
	out := baseViolations(res, serverIdle)
	if len(out) > 0 {
		return out
	}
	add := func(sig, msg string) { out = append(out, vs.Violation{Sig: sig, Msg: msg}) }
	conns := vnet.Conns()
	if len(conns) != len(r.scn.Conns) {
		add("conn-count", fmt.Sprintf("%d connections, want %d", len(conns), len(r.scn.Conns)))
		return out
	}
	// map connection (dial order) -> scripted message list: the k-th dial is by thread term k only when sequential;
	// identify by phone of first frame instead.
	for ci, c := range conns {
		var msgs []tmsg
		// find the script whose first frame's phone/serial matches what this connection was sent: scripts are
		// dialled in thread order under the default schedule but not in general, so match by recorded events.
		msgs = r.matchScript(ci)
		if msgs == nil {
			add("script-match", fmt.Sprintf("connection %d could not be matched to a script", ci))
			continue
		}
		rep := max(r.scn.Repeat, 1)
		var want []ref.Reply
		var reqs []*ref.Frame
		var alts [][]ref.Reply
		for _, hm := range handledOf(msgs, rep) {
			rp := ref.ExpectedReply(hm.f)
			if rp.None {
				continue
			}
			want = append(want, rp)
			reqs = append(reqs, hm.f)
			var al []ref.Reply
			for _, ser := range hm.serials {
				g := *hm.f
				g.Serial = ser
				al = append(al, ref.ExpectedReply(&g))
			}
			alts = append(alts, al)
		}
		got := framesOf(c.Out)
		if len(got) != len(want) {
			add(fmt.Sprintf("reply-count:%s", cmpWord(len(got), len(want))),
				fmt.Sprintf("connection %d: %d reply frames on the socket, want %d (history %s)", ci, len(got), len(want), describe(msgs)))
			continue
		}
		for i, g := range got {
			f, err := ref.Decode(g)
			if err != nil {
				add("reply-undecodable", fmt.Sprintf("connection %d reply %d is not a valid frame (%v): %s", ci, i, err, hx(g)))
				break
			}
			w, q := want[i], reqs[i]
			switch {
			case f.ID != w.ID:
				add(fmt.Sprintf("reply-type:%04x", q.ID), fmt.Sprintf("reply %d to %04x serial %d has type %04x, want %04x (order/type) history %s", i, q.ID, q.Serial, f.ID, w.ID, describe(msgs)))
			case !bytes.Equal(f.PhoneBCD, q.PhoneBCD) || f.V2019 != q.V2019:
				add("reply-addressing", fmt.Sprintf("reply %d addressed to %x v2019=%v, request came from %x v2019=%v", i, f.PhoneBCD, f.V2019, q.PhoneBCD, q.V2019))
			case f.Serial != uint16(i):
				add("platform-serial", fmt.Sprintf("frame %d written on connection %d carries platform serial %d, want %d", i, ci, f.Serial, uint16(i)))
			case f.Fragmented:
				add("reply-fragmented", fmt.Sprintf("reply %d has the fragment bit set", i))
			case !w.BodyFree && !w.BodyPrefix && !bodyIn(f.Body, w, alts[i]):
				add(fmt.Sprintf("reply-body:%04x", q.ID), fmt.Sprintf("reply %d to %04x serial %d has body %s, want %s", i, q.ID, q.Serial, hx(f.Body), hx(w.Body)))
			case w.BodyPrefix && !(bytes.HasPrefix(f.Body, w.Body) && (len(f.Body) == len(w.Body) || (len(f.Body) == len(w.Body)+1 && f.Body[len(w.Body)] == 0))):
				add(fmt.Sprintf("reply-body:%04x", q.ID), fmt.Sprintf("reply %d to %04x has body %s, want prefix %s", i, q.ID, hx(f.Body), hx(w.Body)))
			}
		}
		if len(out) > 0 {
			return out
		}
		// callbacks (not observable with the server's own default handlers)
		if !r.scn.Plain {
			out = append(out, r.checkCallbacks(ci, c, len(want))...)
		}
	}
	return out
}

func cmpWord(a, b int) string {
	if a < b {
		return "fewer"
	}
	return "more"
}

func describe(ms []tmsg) string {
	s := ""
	for _, m := range ms {
		v := "13"
		if m.V2019 {
			v = "19"
		}
		s += fmt.Sprintf("[%04x/%s #%d v%d]", m.ID, v, m.Serial, m.Variant)
		if len(s) > 300 {
			return s + "..."
		}
	}
	return s
}

// matchScript finds the script that was played on the ci-th connection.
func (r *convRun) matchScript(ci int) []tmsg {
	if len(r.scn.Conns) == 1 {
		return r.scn.Conns[0]
	}
	// terminal threads dial in some order; the world's peer list is in dial order and
	// each script thread appended its own peer, so peers[ci] belongs to the script that dialled ci-th.
	// Scripts are distinguished by the phone of their first message.
	for _, e := range r.w.ev {
		if e.Conn == ci && (e.Kind == "tread" || e.Kind == "unsupported") {
			for _, s := range r.scn.Conns {
				if len(s) > 0 && ref.PhoneString(ref.BCD(s[0].Phone, 10)) == e.Snap.Phone {
					return s
				}
			}
		}
	}
	if r.scn.Plain {
		// no recorder: identify the script by the phone the server addressed its first reply to
		for _, o := range vnet.Conns()[ci].Out {
			if f, err := ref.Decode(o.Data); err == nil {
				for _, s := range r.scn.Conns {
					if len(s) > 0 && ref.PhoneString(ref.BCD(s[0].Phone, 10)) == ref.PhoneString(f.PhoneBCD) {
						return s
					}
				}
			}
		}
	}
	// nothing handled on this connection: match by elimination is not needed for the oracle
	for _, s := range r.scn.Conns {
		if len(s) == 0 {
			return s
		}
	}
	return nil
}

func (r *convRun) checkCallbacks(ci int, c *vnet.TCPConn, nReplies int) []vs.Violation {
	var out []vs.Violation
	add := func(sig, msg string) { out = append(out, vs.Violation{Sig: sig, Msg: msg}) }
	// every reply: hwrite and twrite exactly once with PlatData == bytes sent
	writes := c.Out
	var hw, tw, hr, tr []event
	for _, e := range r.w.ev {
		if e.Conn != ci {
			continue
		}
		switch e.Kind {
		case "hwrite":
			hw = append(hw, e)
		case "twrite":
			tw = append(tw, e)
		case "hread":
			hr = append(hr, e)
		case "tread":
			tr = append(tr, e)
		}
	}
	if len(hw) != len(writes) || len(tw) != len(writes) {
		add("write-callback-count", fmt.Sprintf("connection %d: %d frames written, %d handler and %d terminal-event write callbacks", ci, len(writes), len(hw), len(tw)))
		return out
	}
	for i, wr := range writes {
		if !bytes.Equal(hw[i].Snap.PlatData, wr.Data) || !bytes.Equal(tw[i].Snap.PlatData, wr.Data) {
			add("write-callback-data", fmt.Sprintf("write callback %d reports %s / %s, socket carried %s", i, hx(hw[i].Snap.PlatData), hx(tw[i].Snap.PlatData), hx(wr.Data)))
		}
		if hw[i].Step < wr.Step || tw[i].Step < wr.Step {
			add("write-callback-early", fmt.Sprintf("write callback %d ran before the frame was written", i))
		}
	}
	if len(hr) != len(tr) {
		add("read-callback-count", fmt.Sprintf("connection %d: %d handler read callbacks, %d terminal-event read callbacks", ci, len(hr), len(tr)))
		return out
	}
	// every handled message exactly once: compare with the script
	msgs := r.matchScript(ci)
	rep := max(r.scn.Repeat, 1)
	handled := handledOf(msgs, rep)
	nh := len(handled)
	if len(hr) != nh {
		add("read-callback-count", fmt.Sprintf("connection %d: %d read callbacks for %d handled messages", ci, len(hr), nh))
		return out
	}
	// read callback precedes the write of its reply: the i-th reply-bearing message
	k := 0
	for idx, hm := range handled {
		f := hm.f
		e := hr[idx]
		if rep == 1 && (e.Snap.ID != f.ID || !serialIn(e.Snap.Serial, hm.serials) || !bytes.Equal(e.Snap.Body, f.Body)) {
			add("read-callback-content", fmt.Sprintf("read callback %d saw %04x #%d body %s, script sent %04x #%v body %s", idx, e.Snap.ID, e.Snap.Serial, hx(e.Snap.Body), f.ID, hm.serials, hx(f.Body)))
		}
		if !ref.ExpectedReply(f).None {
			if k < len(writes) && (hr[idx].Step > writes[k].Step || tr[idx].Step > writes[k].Step) {
				add("read-callback-late", fmt.Sprintf("reply %d was written (step %d) before the read callbacks of its request ran (steps %d/%d)", k, writes[k].Step, hr[idx].Step, tr[idx].Step))
			}
			k++
		}
	}
	return out
}

func repliesOf(msgs []tmsg) []handledMsg {
	var out []handledMsg
	for _, h := range handledOf(msgs, 1) {
		if !ref.ExpectedReply(h.f).None {
			out = append(out, h)
		}
	}
	return out
}

type handledMsg struct {
	f       *ref.Frame
	serials []uint16 // serial(s) the message may carry (a reassembled message: any of its packets')
}

// handledOf lists, in order, the complete messages of default-registered IDs
// that the script delivers: unfragmented frames, and one reassembled message
// per sub-package transfer at the frame that supplies its last missing packet.
func handledOf(msgs []tmsg, rep int) []handledMsg {
	var out []handledMsg
	type transfer struct {
		total uint16
		parts map[uint16][]byte
		sers  []uint16
	}
	for k := 0; k < rep; k++ {
		tr := map[uint16]*transfer{}
		for _, m := range msgs {
			if rep > 1 {
				m.Serial = uint16(k)
			}
			f, err := ref.Decode(m.frame())
			if err != nil {
				panic("harness frame invalid: " + err.Error())
			}
			if !f.Fragmented {
				if ref.IsDefaultID(f.ID) {
					out = append(out, handledMsg{f, []uint16{f.Serial}})
				}
				continue
			}
			t := tr[f.ID]
			if f.Number == 1 {
				t = &transfer{total: f.Total, parts: map[uint16][]byte{}}
				tr[f.ID] = t
			}
			if t == nil || f.Number == 0 || f.Number > t.total {
				continue
			}
			t.parts[f.Number] = f.Body
			t.sers = append(t.sers, f.Serial)
			if len(t.parts) == int(t.total) {
				var body []byte
				for i := uint16(1); i <= t.total; i++ {
					body = append(body, t.parts[i]...)
				}
				g := *f
				g.Body = body
				if ref.IsDefaultID(f.ID) {
					out = append(out, handledMsg{&g, t.sers})
				}
				delete(tr, f.ID)
			}
		}
	}
	return out
}

func serialIn(s uint16, l []uint16) bool {
	for _, x := range l {
		if x == s {
			return true
		}
	}
	return false
}

func bodyIn(b []byte, w ref.Reply, alts []ref.Reply) bool {
	if bytes.Equal(b, w.Body) {
		return true
	}
	for _, a := range alts {
		if bytes.Equal(b, a.Body) {
			return true
		}
	}
	return false
}

var c06Phones = []string{"13800138000", "7"}

func c06Alphabet(full bool) []tmsg {
	var out []tmsg
	ids := append(append([]uint16{}, ref.DefaultIDs...), 0x0003, 0x0F01)
	serials := []uint16{0, 1, 0xFFFF}
	phones := c06Phones
	if !full {
		serials = []uint16{0, 0xFFFF}
		phones = phones[:1]
	}
	for _, id := range ids {
		for _, v := range []bool{false, true} {
			for _, ser := range serials {
				for _, ph := range phones {
					out = append(out, tmsg{ID: id, V2019: v, Phone: ph, Serial: ser})
				}
			}
		}
	}
	for _, v := range []bool{false, true} {
		out = append(out, tmsg{ID: 0x0102, V2019: v, Phone: phones[0], Serial: 9, Variant: 1})
		out = append(out, tmsg{ID: 0x0801, V2019: v, Phone: phones[0], Serial: 10, Variant: 1})
	}
	// sub-packaged messages: a transfer of ONE package (complete at once: one message, one reply) and the two packages
	// of a two-package transfer (one reply, when complete)
	for _, v := range []bool{false, true} {
		out = append(out, tmsg{ID: 0x0200, V2019: v, Phone: phones[0], Serial: 12, Total: 1, Number: 1})
		out = append(out, tmsg{ID: 0x0100, V2019: v, Phone: phones[0], Serial: 13, Total: 1, Number: 1})
	}
	// 2019 0x0102 too short for its fixed fields: silent by design
	out = append(out, tmsg{ID: 0x0102, V2019: true, Phone: phones[0], Serial: 11, Body: "0501"})
	return out
}

func init() {
	vc.Register(&vc.Check{
		ID:         "C06",
		Level:      "model_checking",
		SingleProc: true,
		Rule: "real server (service.New+Run over the virtual listener) with recording handlers; (a) every sequence of 1..2 terminal messages (thorough 3 on a reduced alphabet) from {17 default IDs + 2 unsupported} x {2013,2019} x serials {0,1,65535} x 2 phones (+ wrong auth code, 0x0801 with escape-byte media ID, too-short 2019 0x0102, sub-packaged 0x0200 / 0x0100 with a package total of 1 (packet bodies are non-empty: an empty packet body is outside C05 and C06)), each on a fresh connection under the run-to-block schedule, one frame per read and all coalesced; " +
			"(b) one connection carried through 65540 heartbeats (serial wrap); (c) representative histories on one and two concurrent connections under ALL schedules within the deviation bound (2 quick, 3 thorough); (d) EVERY thread interleaving (no preemption bound) of the same histories with the default environment answers, using a cache of happens-before state keys validated per run by a self-test and by harness digests (the flag exhaustive refers to (a)-(c); counters unbounded_*: scenarios closed / stopped at the state limit of 40000 quick, 1000000 thorough). " +
			"states = distinct happens-before state keys, transitions = scheduler steps. Non-trivial = history of >=2 messages or schedule with >=1 deviation",
		Assumptions: []string{"reply table harness/ref/reply.go written from JT/T 808 and the property text", "socket model vnet: byte stream, segmentation chosen by the harness",
			"scheduling points are channel/socket/once/sleep operations (complete for race-free executions; races are C18's subject)"},
		Run: c06Run,
		Drivers: map[string]func(json.RawMessage) string{"conv": func(raw json.RawMessage) string {
			return convReplay(raw, convCheck)
		}},
	})
}

type convCase struct {
	Scn     convScn `json:"scenario"`
	Choices []int   `json:"choices"`
}

func convReplay(raw json.RawMessage, check func(*vs.Result, any) []vs.Violation) string {
	var c convCase
	if err := json.Unmarshal(raw, &c); err != nil {
		return "bad case: " + err.Error()
	}
	x := &vs.Explorer{Name: c.Scn.Name, Make: convMake(c.Scn), Check: check, Horizon: 3000000}
	res, user, _ := x.RunOnce(c.Choices, nil, true)
	vs_ := check(res, user)
	if len(vs_) == 0 {
		return ""
	}
	s := ""
	for _, v := range vs_ {
		s += v.Sig + ": " + v.Msg + "\n"
	}
	s += fmt.Sprintf("schedule (%d steps):", len(res.Trace))
	for i, st := range res.Trace {
		if i > 400 {
			s += " ..."
			break
		}
		s += fmt.Sprintf(" %d:%s/%d", st.Thread, st.Kind, st.Obj)
	}
	return s
}

// exploreInto runs one scenario family member and merges its statistics.
func exploreInto(ctx *vc.Ctx, rep *vc.Report, scn convScn, bound int, shardExec bool, check func(*vs.Result, any) []vs.Violation, driver string, nontrivial bool) {
	x := &vs.Explorer{Name: scn.Name, Bound: bound, Make: convMake(scn), Check: check, KeepKeys: bound > 0,
		Deadline: ctx.Deadline, Horizon: 3000000}
	if shardExec {
		x.Shard, x.NShards = ctx.Worker, ctx.NWorkers
		if bound >= 2 {
			x.ShardLvl = 2
		}
	}
	x.Explore()
	st := x.Stats
	rep.Evaluations += st.Executions
	rep.Transitions += st.Transitions
	rep.States += int64(len(st.States))
	rep.TracesValidated += st.Executions
	if nontrivial {
		rep.Nontrivial += st.Executions
	} else {
		rep.Nontrivial += st.Nontrivial
	}
	if st.Truncated {
		rep.Truncated = true
		rep.Caps = append(rep.Caps, fmt.Sprintf("deadline hit in scenario %s at bound %d", scn.Name, bound))
	}
	if st.StatesCapped {
		rep.Caps = append(rep.Caps, "state-key set capped (states under-counted)")
	}
	if st.Nondet != "" {
		rep.Nondet = st.Nondet
	}
	if bound > rep.Bound {
		rep.Bound = bound
	}
	for i := range st.ByCost {
		if st.ByCost[i] > 0 {
			rep.Count(fmt.Sprintf("executions_with_%d_deviations", i), st.ByCost[i])
		}
	}
	rep.Count("distinct_traces", int64(len(st.Outcomes)))
	for _, f := range x.Found {
		rep.Outcome("fail:" + f.Sig)
		rep.Add(f.Sig, fmt.Sprintf("scenario %s, %d deviation(s): %s", scn.Name, f.Cost, f.Msg), driver, convCase{scn, f.Choices})
	}
	if len(x.Found) == 0 {
		rep.Outcome("ok:" + scnClass(scn.Name))
	}
}

func scnClass(n string) string {
	for i, c := range n {
		if c == ':' {
			return n[:i]
		}
	}
	return n
}

// ---- conformance B: the same conversations on the virtual socket and over real TCP ----

type confStep struct {
	Send   string   `json:"send_hex"`
	Expect []string `json:"expect_hex"`
}

type confTrace struct {
	Name  string     `json:"name"`
	Steps []confStep `json:"steps"`
}

// confbTrace runs msgs one by one on the instrumented server (run-to-block schedule, each frame awaited) and
// records what the server wrote after each frame.
func confbTrace(name string, msgs []tmsg, plain bool) (confTrace, string) {
	tr := confTrace{Name: name}
	mk := func() (func(), any) {
		vnet.Reset()
		return func() {
			w := startWorld(worldOpts{noRecord: plain})
			p := w.dial()
			seen := 0
			for _, m := range msgs {
				f := m.frame()
				p.Send(f)
				vs.WaitIdle() // everything the server does in reaction to this frame is done
				out := p.Writes()
				st := confStep{Send: hx2(f)}
				for _, o := range out[seen:] {
					st.Expect = append(st.Expect, hx2(o.Data))
				}
				seen = len(out)
				tr.Steps = append(tr.Steps, st)
			}
		}, nil
	}
	x := &vs.Explorer{Make: mk, Check: func(*vs.Result, any) []vs.Violation { return nil }}
	res, _, _ := x.RunOnce(nil, nil, false)
	if v := baseViolations(res, serverIdle); len(v) > 0 {
		return tr, v[0].Msg
	}
	return tr, ""
}

func confB(rep *vc.Report) {
	bin := os.Getenv("VERIF_CONFB")
	if bin == "" {
		rep.Notes = append(rep.Notes, "conformance B skipped: VERIF_CONFB not set (bin/vcheck sets it)")
		return
	}
	p1 := "13800138000"
	var traces []confTrace
	convs := map[string][]tmsg{
		"reg-auth-hb-loc":           {{ID: 0x0100, Phone: p1, Serial: 1}, {ID: 0x0102, Phone: p1, Serial: 2}, {ID: 0x0002, Phone: p1, Serial: 3}, {ID: 0x0200, Phone: p1, Serial: 4}},
		"2019-mixed":                {{ID: 0x0100, V2019: true, Phone: p1, Serial: 0xFFFF}, {ID: 0x0102, V2019: true, Phone: p1, Serial: 0, Variant: 1}, {ID: 0x0704, V2019: true, Phone: p1, Serial: 1}, {ID: 0x0801, V2019: true, Phone: p1, Serial: 2, Variant: 1}},
		"responses-and-unsupported": {{ID: 0x0001, Phone: p1, Serial: 1}, {ID: 0x0F01, Phone: p1, Serial: 2}, {ID: 0x0805, Phone: p1, Serial: 3}, {ID: 0x1212, Phone: p1, Serial: 4}, {ID: 0x1003, Phone: p1, Serial: 5}},
		"subpackage":                {{ID: 0x0801, Phone: p1, Serial: 10, Total: 2, Number: 1, Body: "000000aa0000010211223344556677889900112233445566778899001122334455667788"}, {ID: 0x0002, Phone: p1, Serial: 11}, {ID: 0x0801, Phone: p1, Serial: 12, Total: 2, Number: 2, Body: "7e7d7e7d0102"}},
		"escape-dense":              {{ID: 0x0200, Phone: "7e7d7e7d7e7d", Serial: 0x7E7D, Body: hx2(append([]byte{0x7E, 0x7D, 0x7E, 0x7D}, make([]byte, 24)...))}, {ID: 0x0002, Phone: "7e7d7e7d7e7d", Serial: 0x7D7E}},
	}
	for _, name := range sortedKeys(convs) {
		for _, plain := range []bool{true, false} {
			tr, bad := confbTrace(fmt.Sprintf("%s/plain=%v", name, plain), convs[name], plain)
			if bad != "" {
				rep.Nondet = "conformance B: virtual run failed: " + bad
				return
			}
			traces = append(traces, tr)
		}
	}
	// every default ID once, both versions
	for _, v := range []bool{false, true} {
		var all []tmsg
		for i, id := range ref.DefaultIDs {
			all = append(all, tmsg{ID: id, V2019: v, Phone: p1, Serial: uint16(i)})
		}
		tr, bad := confbTrace(fmt.Sprintf("all-default-ids/v2019=%v", v), all, true)
		if bad != "" {
			rep.Nondet = "conformance B: virtual run failed: " + bad
			return
		}
		traces = append(traces, tr)
	}
	f, err := os.CreateTemp("", "confb-*.json")
	if err != nil {
		return
	}
	defer os.Remove(f.Name())
	js, _ := json.Marshal(traces)
	_, _ = f.Write(js)
	_ = f.Close()
	out, err := exec.Command(bin, f.Name()).CombinedOutput()
	if err != nil {
		if ee, ok := err.(*exec.ExitError); ok && ee.ExitCode() == 3 {
			rep.Notes = append(rep.Notes, "conformance B skipped: loopback TCP not available here: "+strings.TrimSpace(string(out)))
			return
		}
		rep.SoftBroken = "conformance B: the un-instrumented server over real TCP differs from the instrumented one on the virtual socket (socket model or rewriter wrong, unless the server's replies depend on how TCP cut the stream):\n" + string(out)
		return
	}
	rep.Count("conformance_b_conversations_identical_over_real_tcp", int64(len(traces)))
	rep.TracesValidated += int64(len(traces))
	rep.Notes = append(rep.Notes, "conformance B: "+strings.TrimSpace(string(out)))
}

func c06Run(ctx *vc.Ctx, rep *vc.Report) {
	if ctx.Worker == 0 {
		confB(rep)
	}
	// (a) sequential histories
	alpha := c06Alphabet(true)
	var idx int64
	for _, coalesce := range []bool{false, true} {
		for i, a := range alpha {
			idx++
			if ctx.Mine(idx) {
				exploreInto(ctx, rep, convScn{Name: fmt.Sprintf("seq1:%d", i), Conns: [][]tmsg{{a}}, Coalesce: coalesce}, 0, false, convCheck, "conv", false)
			}
			for j, b := range alpha {
				idx++
				if !ctx.Mine(idx) {
					continue
				}
				if ctx.Expired() || rep.TooMany() {
					rep.Truncated = rep.Truncated || ctx.Expired()
					return
				}
				scn := convScn{Name: fmt.Sprintf("seq2:%d,%d", i, j), Conns: [][]tmsg{{a, b}}, Coalesce: coalesce}
				exploreInto(ctx, rep, scn, 0, false, convCheck, "conv", true)
				if idx%9973 == 0 {
					rep.Sample(map[string]any{"history": describe(scn.Conns[0]), "coalesced": coalesce})
				}
			}
		}
	}
	if ctx.Thorough() {
		small := c06Alphabet(false)
		for i, a := range small {
			for j, b := range small {
				for k, c := range small {
					idx++
					if !ctx.Mine(idx) {
						continue
					}
					if ctx.Expired() || rep.TooMany() {
						rep.Truncated = rep.Truncated || ctx.Expired()
						return
					}
					exploreInto(ctx, rep, convScn{Name: fmt.Sprintf("seq3:%d,%d,%d", i, j, k), Conns: [][]tmsg{{a, b, c}}}, 0, false, convCheck, "conv", true)
				}
			}
		}
	}
	// (b) wrap
	idx++
	if ctx.Mine(idx) {
		scn := convScn{Name: "wrap:65540-heartbeats", Conns: [][]tmsg{{{ID: 0x0002, Phone: "13800138000"}}}, Repeat: 65540}
		exploreInto(ctx, rep, scn, 0, false, convCheck, "conv", true)
		rep.Sample(map[string]any{"history": "65540 x heartbeat on one connection (platform serial wraps)"})
	}
	// (c) schedules
	bound := 2
	if ctx.Thorough() {
		bound = 3
	}
	p1, p2 := "13800138000", "13900139000"
	fams := []convScn{
		{Name: "sched:reg-auth-hb", Conns: [][]tmsg{{{ID: 0x0100, Phone: p1, Serial: 1}, {ID: 0x0102, Phone: p1, Serial: 2}, {ID: 0x0002, Phone: p1, Serial: 3}}}},
		{Name: "sched:hb-loc-unsupported", Conns: [][]tmsg{{{ID: 0x0002, Phone: p1, Serial: 0xFFFF}, {ID: 0x0200, V2019: true, Phone: p1, Serial: 0}, {ID: 0x0F01, Phone: p1, Serial: 1}}}},
		{Name: "sched:response-then-request", Conns: [][]tmsg{{{ID: 0x0001, Phone: p1, Serial: 5}, {ID: 0x0801, Phone: p1, Serial: 6}, {ID: 0x1212, Phone: p1, Serial: 7}}}},
		{Name: "sched:coalesced3", Conns: [][]tmsg{{{ID: 0x0002, Phone: p1, Serial: 1}, {ID: 0x0200, Phone: p1, Serial: 2}, {ID: 0x0704, Phone: p1, Serial: 3}}}, Coalesce: true},
		{Name: "sched:two-conns", Conns: [][]tmsg{{{ID: 0x0100, Phone: p1, Serial: 1}, {ID: 0x0002, Phone: p1, Serial: 2}}, {{ID: 0x0100, V2019: true, Phone: p2, Serial: 1}, {ID: 0x0200, V2019: true, Phone: p2, Serial: 2}}}},
		{Name: "sched:plain-two-conns-auth", Plain: true, Conns: [][]tmsg{{{ID: 0x0102, Phone: p1, Serial: 1}, {ID: 0x0801, Phone: p1, Serial: 2}}, {{ID: 0x0102, V2019: true, Phone: p2, Serial: 1, Variant: 1}, {ID: 0x0801, V2019: true, Phone: p2, Serial: 2, Variant: 1}}}},
		{Name: "sched:plain-two-conns-1212", Plain: true, Conns: [][]tmsg{{{ID: 0x1212, Phone: p1, Serial: 1}, {ID: 0x0100, Phone: p1, Serial: 2}}, {{ID: 0x1212, Phone: p2, Serial: 1, Body: "03622e6a010000000a"}, {ID: 0x0002, Phone: p2, Serial: 2}}}},
		{Name: "sched:two-conns-b", Conns: [][]tmsg{{{ID: 0x0102, Phone: p1, Serial: 1, Variant: 1}, {ID: 0x1003, Phone: p1, Serial: 2}}, {{ID: 0x0002, Phone: p2, Serial: 1}, {ID: 0x0805, Phone: p2, Serial: 2}}}},
	}
	for _, f := range fams {
		if ctx.Expired() || rep.TooMany() {
			rep.Truncated = rep.Truncated || ctx.Expired()
			return
		}
		exploreInto(ctx, rep, f, bound, true, convCheck, "conv", false)
		if ctx.Worker == 0 {
			rep.Sample(map[string]any{"scenario": f.Name, "bound": bound, "connections": len(f.Conns)})
		}
	}
	// (d) every thread interleaving of the same histories (no preemption bound), state cache, one history per worker
	var uidx int64
	maxStates := 40000
	if ctx.Thorough() {
		maxStates = 1000000
	}
	for _, f := range fams {
		if ctx.Expired() || rep.TooMany() {
			if ctx.Expired() {
				rep.Count("unbounded_pass_cut_short_by_time_cap", 1)
			}
			return
		}
		f := f
		exploreAll(ctx, rep, &uidx, f.Name, convMake(f), convCheck, "conv", func(x vs.Found) any { return convCase{f, x.Choices} }, maxStates, envBoundOf(0))
	}
}
