package checks

import (
	"encoding/json"
	"fmt"
	"os"
	"strings"

	"verif/harness/vc"
	"verif/harness/vs"
)

// C12 - platform commands are matched with their own responses (E1).
// C13 - disconnects never crash the server or strand callers (E1).

var cmdMenu = []uint16{0x8103, 0x8104, 0x8801, 0x9101, 0x9205, 0x9206}

func c12Scenarios(thorough bool) []cmdScn {
	p1, p2 := "13800138000", "13900139000"
	var out []cmdScn
	k := 0
	for _, b := range []string{"inorder", "never", "unknown-serial", "late", "first-twice"} {
		k++
		out = append(out, cmdScn{Name: "c12:1x1:" + b, Terms: []termSpec{{Phone: p1, Behaviour: b, Expect: 1, Noise: b == "inorder"}},
			Calls: []callSpec{{Key: p1, Cmd: cmdMenu[k%len(cmdMenu)], TimeoutMs: 3000}}})
	}
	for _, b := range []string{"inorder", "reverse", "second-only", "first-twice", "unknown-serial", "never", "late"} {
		k++
		out = append(out, cmdScn{Name: "c12:1x2:" + b, Terms: []termSpec{{Phone: p1, V2019: k%2 == 0, Behaviour: b, Expect: 2, Noise: b == "reverse"}},
			Calls: []callSpec{{Key: p1, Cmd: cmdMenu[k%len(cmdMenu)], TimeoutMs: 3000}, {Key: p1, Cmd: cmdMenu[(k+1)%len(cmdMenu)], TimeoutMs: 50}}})
	}
	// same command twice (identical frames except for the serial)
	out = append(out, cmdScn{Name: "c12:1x2:same-cmd", Terms: []termSpec{{Phone: p1, Behaviour: "reverse", Expect: 2}},
		Calls: []callSpec{{Key: p1, Cmd: 0x8104, TimeoutMs: 3000}, {Key: p1, Cmd: 0x8104, TimeoutMs: 3000}}})
	// two terminals
	out = append(out, cmdScn{Name: "c12:2x2:inorder", Terms: []termSpec{{Phone: p1, Behaviour: "inorder", Expect: 1}, {Phone: p2, V2019: true, Behaviour: "inorder", Expect: 1}},
		Calls: []callSpec{{Key: p1, Cmd: 0x8104, TimeoutMs: 3000}, {Key: p2, Cmd: 0x8801, TimeoutMs: 3000}}})
	// two terminals answering the SAME kind of response at the same time (response parsing state must be per connection)
	for _, cmd := range []uint16{0x8103, 0x8104, 0x8801, 0x9205, 0x9206} {
		out = append(out, cmdScn{Name: fmt.Sprintf("c12:2x2:same-kind:%04x", cmd), Terms: []termSpec{{Phone: p1, Behaviour: "inorder", Expect: 1}, {Phone: p2, V2019: true, Behaviour: "inorder", Expect: 1}},
			Calls: []callSpec{{Key: p1, Cmd: cmd, TimeoutMs: 3000}, {Key: p2, Cmd: cmd, TimeoutMs: 3000}}})
	}
	out = append(out, cmdScn{Name: "c12:2x2:one-silent", Terms: []termSpec{{Phone: p1, Behaviour: "never", Expect: 1}, {Phone: p2, Behaviour: "inorder", Expect: 1, PreHB: 2}},
		Calls: []callSpec{{Key: p1, Cmd: 0x9101, TimeoutMs: 100}, {Key: p2, Cmd: 0x9205, TimeoutMs: 3000}}})
	// one caller sending sequentially, re-using a single ActiveMessage object, first command with a short timeout
	out = append(out, cmdScn{Name: "c12:seq-reuse", Terms: []termSpec{{Phone: p1, Behaviour: "prompt", Expect: 2}},
		SeqCalls: [][]callSpec{{{Key: p1, Cmd: 0x8104, TimeoutMs: 50}, {Key: p1, Cmd: 0x8801, TimeoutMs: 3000}}}})
	out = append(out, cmdScn{Name: "c12:seq-reuse-3", Terms: []termSpec{{Phone: p1, Behaviour: "prompt", Expect: 3, PreHB: 1}},
		SeqCalls: [][]callSpec{{{Key: p1, Cmd: 0x9101, TimeoutMs: 10}, {Key: p1, Cmd: 0x8103, TimeoutMs: 20}, {Key: p1, Cmd: 0x9205, TimeoutMs: 5000}}}})
	// the re-used object after a call that has already completed (answered, or timed out): the next command gets no
	// answer and must still time out
	out = append(out, cmdScn{Name: "c12:seq-reuse-then-silent", Terms: []termSpec{{Phone: p1, Behaviour: "prompt", Expect: 1}},
		SeqCalls: [][]callSpec{{{Key: p1, Cmd: 0x8104, TimeoutMs: 3000}, {Key: p1, Cmd: 0x8801, TimeoutMs: 50}}}})
	out = append(out, cmdScn{Name: "c12:seq-reuse-absent-between", Terms: []termSpec{{Phone: p1, Behaviour: "prompt", Expect: 1}},
		SeqCalls: [][]callSpec{{{Key: p1, Cmd: 0x8104, TimeoutMs: 3000}, {Key: "nobody", Cmd: 0x8103, TimeoutMs: 3000}, {Key: p1, Cmd: 0x8801, TimeoutMs: 50}}}})
	out = append(out, cmdScn{Name: "c12:seq-reuse-all-silent", Terms: []termSpec{{Phone: p1, Behaviour: "never", Expect: 2}},
		SeqCalls: [][]callSpec{{{Key: p1, Cmd: 0x9101, TimeoutMs: 10}, {Key: p1, Cmd: 0x8103, TimeoutMs: 20}}}})
	// the first platform frame on the connection is a command: platform serial 0
	for _, b := range []string{"inorder", "reverse"} {
		out = append(out, cmdScn{Name: "c12:serial0:" + b, Terms: []termSpec{{Phone: p1, Behaviour: b, Expect: 2, SilentJoin: true}},
			Calls: []callSpec{{Key: p1, Cmd: 0x8103, TimeoutMs: 3000}, {Key: p1, Cmd: 0x8104, TimeoutMs: 3000}}})
	}
	// absent key next to an online one
	out = append(out, cmdScn{Name: "c12:absent-key", Terms: []termSpec{{Phone: p1, Behaviour: "inorder", Expect: 1}},
		Calls: []callSpec{{Key: p1, Cmd: 0x8104, TimeoutMs: 3000}, {Key: "nobody", Cmd: 0x8104, TimeoutMs: 3000}}})
	if thorough {
		for _, b := range []string{"inorder", "reverse", "second-only", "never"} {
			out = append(out, cmdScn{Name: "c12:1x3:" + b, Terms: []termSpec{{Phone: p1, Behaviour: b, Expect: 3, Noise: true}},
				Calls: []callSpec{{Key: p1, Cmd: 0x8103, TimeoutMs: 3000}, {Key: p1, Cmd: 0x8801, TimeoutMs: 3000}, {Key: p1, Cmd: 0x9206, TimeoutMs: 10}}})
		}
	}
	// platform serial wrap between outstanding commands: 65535 / 65536 platform frames precede the two commands (the
	// preamble runs under the default schedule, schedules are explored from the moment the terminal is online)
	for _, pre := range []int{65535} {
		for _, b := range []string{"inorder", "reverse"} {
			if !thorough && !(pre == 65535 && b == "inorder") {
				continue
			}
			out = append(out, cmdScn{Name: fmt.Sprintf("c12:wrap:%d:%s", pre, b), HoldUntilOnline: true, Bound: 1,
				Terms: []termSpec{{Phone: p1, Behaviour: b, Expect: 2, PreHB: pre}},
				Calls: []callSpec{{Key: p1, Cmd: 0x8104, TimeoutMs: 3000}, {Key: p1, Cmd: 0x8801, TimeoutMs: 3000}}})
		}
	}
	// more commands outstanding than the writer's queues hold (3), all answered in one burst
	for _, kk := range []int{4, 5} {
		for _, b := range []string{"inorder", "reverse"} {
			s := cmdScn{Name: fmt.Sprintf("c12:1x%d:%s-burst", kk, b), Bound: 1, Terms: []termSpec{{Phone: p1, Behaviour: b, Expect: kk}}}
			for i := 0; i < kk; i++ {
				s.Calls = append(s.Calls, callSpec{Key: p1, Cmd: cmdMenu[i%len(cmdMenu)], TimeoutMs: 3000})
			}
			out = append(out, s)
		}
	}
	// more timeouts expiring at once than the completion queue holds, while the writer is busy in a user callback
	out = append(out, c12BusyTimeouts(4), c12BusyTimeouts(5))
	return out
}

func c13Scenarios(thorough bool) []cmdScn {
	p1 := "13800138000"
	var out []cmdScn
	mk := func(name, closeAt, beh string, ncalls int, expect int, fail bool, nowait bool) {
		s := cmdScn{Name: "c13:" + name, Disconnect: true, FailWrites: fail,
			Terms: []termSpec{{Phone: p1, Behaviour: beh, Expect: expect, CloseAt: closeAt}}}
		if ncalls >= 4 {
			s.Bound = 2 // thorough: 4-5 queued commands at 2 deviations (3 does not finish within the time cap)
		}
		for i := 0; i < ncalls; i++ {
			s.Calls = append(s.Calls, callSpec{Key: p1, Cmd: cmdMenu[i%len(cmdMenu)], TimeoutMs: 3000, NoWait: nowait})
		}
		out = append(out, s)
	}
	maxK := 2
	if thorough {
		maxK = 5
	}
	for k := 0; k <= maxK; k++ {
		mk(fmt.Sprintf("before-join:k=%d", k), "before-join", "never", k, 0, false, true)
		mk(fmt.Sprintf("after-join:k=%d", k), "after-join", "never", k, 0, false, false)
		mk(fmt.Sprintf("after-join-failwrites:k=%d", k), "after-join", "never", k, 0, true, false)
		mk(fmt.Sprintf("reset-after-join:k=%d", k), "reset-after-join", "never", k, 0, true, false)
		if k >= 1 {
			mk(fmt.Sprintf("after-seen-1:k=%d", k), "after-seen:1", "never", k, k, false, false)
			mk(fmt.Sprintf("after-seen-all:k=%d", k), fmt.Sprintf("after-seen:%d", k), "never", k, k, true, false)
			mk(fmt.Sprintf("after-respond:k=%d", k), "after-respond", "inorder", k, k, false, false)
			mk(fmt.Sprintf("after-partial-respond:k=%d", k), "after-respond", "second-only", k, k, false, false)
			mk(fmt.Sprintf("silent-then-timeout:k=%d", k), "", "never", k, k, false, false)
		}
	}
	// one caller re-using its ActiveMessage object: the first command is answered, the terminal hangs up, the second
	// command (same object) races the teardown
	out = append(out, cmdScn{Name: "c13:seq-reuse-after-respond", Disconnect: true, FailWrites: true,
		Terms:    []termSpec{{Phone: p1, Behaviour: "inorder", Expect: 1, CloseAt: "after-respond"}},
		SeqCalls: [][]callSpec{{{Key: p1, Cmd: 0x8104, TimeoutMs: 3000}, {Key: p1, Cmd: 0x8801, TimeoutMs: 50}}}})
	// requests pipelined, then the terminal disappears while replies are pending and writes to it fail (3 deviations:
	// the reader must be caught between Read and its hand-over to the writer while the writer tears the connection down)
	for _, how := range []string{"pipelined-then-reset", "pipelined-then-close"} {
		for n := 1; n <= 2; n++ {
			out = append(out, cmdScn{Name: fmt.Sprintf("c13:%s:n=%d", how, n+1), Disconnect: true, FailWrites: true, Bound: 3,
				Terms: []termSpec{{Phone: p1, Behaviour: "never", CloseAt: how, PreHB: n}}})
		}
	}
	// the writer is held in a slow user callback while more commands arrive than its queue holds (3), then the peer hangs up
	for _, k := range []int{4, 5} {
		s := cmdScn{Name: fmt.Sprintf("c13:busy-writer-then-close:k=%d", k), Disconnect: true, Bound: 1, SlowReplyMs: 120,
			Terms: []termSpec{{Phone: p1, Behaviour: "never", LocNow: true, CloseAfterMs: 50}}}
		for i := 0; i < k; i++ {
			s.Calls = append(s.Calls, callSpec{Key: p1, Cmd: cmdMenu[i%len(cmdMenu)], TimeoutMs: 3000})
		}
		out = append(out, s)
	}
	// online, requests in flight, terminal gone, a command's write fails: the reader is still handing requests over
	for _, how := range []string{"online-pipelined-then-reset", "online-pipelined-then-close"} {
		for _, k := range []int{1, 2} {
			s := cmdScn{Name: fmt.Sprintf("c13:%s:k=%d", how, k), Disconnect: true, FailWhenGone: true, Bound: 2,
				Terms: []termSpec{{Phone: p1, Behaviour: "never", CloseAt: how, PreHB2: 2}}}
			for i := 0; i < k; i++ {
				s.Calls = append(s.Calls, callSpec{Key: p1, Cmd: cmdMenu[i], TimeoutMs: 3000})
			}
			out = append(out, s)
		}
	}
	// more requests pipelined behind a slow reply than the reader->writer queue holds (10), with and without a command waiting, then the peer goes
	for _, how := range []string{"pipelined-then-reset", "pipelined-then-close"} {
		for _, k := range []int{0, 1} {
			s := cmdScn{Name: fmt.Sprintf("c13:busy-writer:%s:12:k=%d", how, k), Disconnect: true, FailWrites: how == "pipelined-then-reset", Bound: 1, SlowReplyMs: 120,
				Terms: []termSpec{{Phone: p1, Behaviour: "never", CloseAt: how, PreHB: 12, LocNow: true}}}
			for i := 0; i < k; i++ {
				s.Calls = append(s.Calls, callSpec{Key: p1, Cmd: cmdMenu[i], TimeoutMs: 3000, NoWait: true})
			}
			out = append(out, s)
		}
	}
	// ... or stays, and more timeouts expire than the completion queue holds (3) while the writer is busy
	out = append(out, c12BusyTimeouts(5))
	return out
}

// c12BusyTimeouts: k commands to a silent terminal all expire at T while the connection's writer sits in a slow
// user callback from T-50ms to T+70ms: every caller must still get its timeout.
func c12BusyTimeouts(k int) cmdScn {
	p1 := "13800138000"
	s := cmdScn{Name: fmt.Sprintf("c12:timeouts-while-writer-busy:k=%d", k), Bound: 1, SlowReplyMs: 120,
		Terms: []termSpec{{Phone: p1, Behaviour: "never", Expect: k, LocAfterMs: 2950}}}
	for i := 0; i < k; i++ {
		s.Calls = append(s.Calls, callSpec{Key: p1, Cmd: cmdMenu[i%len(cmdMenu)], TimeoutMs: 3000})
	}
	return s
}

func init() {
	run := func(scns func(bool) []cmdScn) func(ctx *vc.Ctx, rep *vc.Report) {
		return func(ctx *vc.Ctx, rep *vc.Report) {
			bound := 2
			if ctx.Thorough() {
				bound = 3
			}
			for _, s := range scns(ctx.Thorough()) {
				if only := os.Getenv("VERIF_ONLY"); only != "" && !strings.Contains(s.Name, only) {
					continue // debugging aid: restrict to scenarios whose name contains VERIF_ONLY
				}
				if ctx.Expired() || rep.TooMany() {
					rep.Truncated = rep.Truncated || ctx.Expired()
					return
				}
				exploreCmd(ctx, rep, s, bound)
				if ctx.Worker == 0 {
					rep.Sample(map[string]any{"scenario": s.Name, "terminals": s.Terms, "calls": s.Calls, "bound": bound})
				}
			}
			// every thread interleaving (no preemption bound) of each scenario, one scenario per worker, with the state
			// cache: quick with the default environment answers (timers fire when nothing else can run, first ready
			// select case, writes succeed), thorough also with one environment deviation for the scenarios of <= 1 call
			var idx int64
			for _, s := range scns(ctx.Thorough()) {
				if only := os.Getenv("VERIF_ONLY"); only != "" && !strings.Contains(s.Name, only) {
					continue
				}
				if ctx.Expired() || rep.TooMany() {
					if ctx.Expired() {
						rep.Count("unbounded_pass_cut_short_by_time_cap", 1)
					}
					return
				}
				s := s
				if s.HoldUntilOnline {
					continue // long deterministic preamble: bounded search only
				}
				mkCase := func(f vs.Found) any { return cmdCase{s, f.Choices} }
				if !ctx.Thorough() {
					// quick: the scenarios with at most one caller (their spaces close below 60000 states)
					if len(s.Calls)+len(s.SeqCalls) <= 1 && s.SlowReplyMs == 0 {
						limit := 60000
						if s.FailWhenGone {
							limit = 150000 // the write failure is deterministic here: the cached search is what reaches the deep interleavings
						}
						exploreAll(ctx, rep, &idx, s.Name, cmdMake(s), cmdCheck, "cmd", mkCase, limit, envBoundOf(0))
					}
					continue
				}
				exploreAll(ctx, rep, &idx, s.Name, cmdMake(s), cmdCheck, "cmd", mkCase, 1000000, envBoundOf(0))
				if len(s.Calls)+len(s.SeqCalls) <= 1 {
					exploreAll(ctx, rep, &idx, s.Name+"+1env", cmdMake(s), cmdCheck, "cmd", mkCase, 1000000, envBoundOf(1))
				}
			}
		}
	}
	drv := map[string]func(json.RawMessage) string{"cmd": cmdReplay}
	vc.Register(&vc.Check{
		ID: "C12", Level: "model_checking", SingleProc: true,
		Rule: "real server + scripted terminals + 1..2 (thorough 3) concurrent SendActiveMessage callers with commands from {8103,8104,8801,9101,9205,9206}; terminal behaviours {in order, reverse, only the second, first twice, unknown serial, never, late (after the timers)}, optional heartbeat/location noise, one and two terminals (also both answering the same kind of response at once, for each of the five response kinds), an absent key, a caller that sends sequentially re-using one ActiveMessage object (every command answered; the first answered or expired and the next never answered), a terminal whose first message gets no reply so that the first command carries platform serial 0, two commands issued after 65536 platform frames so that their serials follow the wrap (the preamble runs once per execution under the default schedule, 1 deviation afterwards), 4 and 5 commands answered by the terminal in one burst (in order and reversed), 4 and 5 commands to a silent terminal that all expire while the connection's writer sits in a slow user callback (more timeouts at once than the 3-slot completion queue holds); " +
			"ALL schedules within the deviation bound (2 quick, 3 thorough), timers are scheduler events that may fire at any point (firing ahead of a runnable thread is a deviation). Then EVERY thread interleaving (no preemption bound) of the scenarios with at most one caller (thorough: all scenarios) with the default environment answers (timers fire when nothing else can run, first ready select case (moving on to the next when the same select is met again), writes succeed; thorough: also with one environment deviation for scenarios of at most one call), using a cache of happens-before state keys: each state is expanded once, every state and transition is executed at least once; the cache is validated per run by a self-test (cached search = every-schedule search on 20 programs that fail when a component of the key is removed) and by comparing a harness digest whenever a key is met again; the flag exhaustive refers to the deviation-bounded families; for the cached pass the counters unbounded_* say how many scenarios closed and how many stopped at the state limit (quick 60000 states, thorough 1000000). Non-trivial = schedule with >=1 deviation",
		Assumptions: []string{"timeouts are decided as events, no wall clock (a timeout must not come before the command's own duration has elapsed in virtual time); 'response or timeout' is all that is demanded when a timer fires early, except in executions without early timers, where an answered command must see its answer",
			"the serial wrap is reached by a 65536-frame preamble that is executed, not explored (schedules branch only after it)"},
		Run: run(c12Scenarios), Drivers: drv,
	})
	vc.Register(&vc.Check{
		ID: "C13", Level: "model_checking", SingleProc: true,
		Rule: "C12's machinery with the terminal closing or resetting at every point of its script (before join, after join, after k commands were written, after responding to all / some, never) x k = 0..2 (thorough 0..5; k >= 4 at 2 deviations) queued or outstanding commands x write failures as a socket answer; plus one caller re-using its ActiveMessage object whose second command races the hang-up that follows the first answer; plus 2..3 pipelined requests followed by reset/close with failing writes at 3 deviations; plus 1..2 commands to a terminal that goes online, pipelines 2 requests and disappears with failing writes; plus busy-writer scenarios (the user's write callback takes 120 ms of virtual time for one reply): 4-5 commands queued behind it (more than the 3-slot queue) and the peer hangs up 50 ms later, 13 requests pipelined behind it (more than the 10-slot reader->writer queue) followed by close/reset with 0..1 commands waiting, 5 timeouts expiring meanwhile; ALL schedules within the deviation bound (2 quick, 3 thorough). Then EVERY thread interleaving (no preemption bound) of the scenarios with at most one caller (thorough: all scenarios) with the default environment answers (timers fire when nothing else can run, first ready select case (moving on to the next when the same select is met again), writes succeed; thorough: also with one environment deviation for scenarios of at most one call), using a cache of happens-before state keys: each state is expanded once, every state and transition is executed at least once; the cache is validated per run by a self-test (cached search = every-schedule search on 20 programs that fail when a component of the key is removed) and by comparing a harness digest whenever a key is met again; the flag exhaustive refers to the deviation-bounded families; for the cached pass the counters unbounded_* say how many scenarios closed and how many stopped at the state limit (quick 60000 states, thorough 1000000). " +
			"Oracle: no goroutine panics (process death) and at quiescence every caller has returned. Non-trivial = schedule with >=1 deviation",
		Assumptions: []string{"'within its timeout plus slack' is decided as: returns in every maximal execution in which timers fire; no wall clock"},
		Run:         run(c13Scenarios), Drivers: drv,
	})
}
