package checks
