package checks

import (
	"bytes"
	"encoding/json"
	"fmt"

	"github.com/cuteLittleDevil/go-jt808/service"
	"verif/harness/ref"
	"verif/harness/vc"
	"verif/harness/vnet"
	"verif/harness/vs"
)

// C04 - stream framing is independent of TCP segmentation.
//
// Driven (a) through the real frame extractor (service.packageParse via the
// VerifParser accessor) fed from ONE reused 1023-byte buffer exactly like
// connection.reader does, for every partition family, and (b) through the real
// connection.reader on a virtual socket under the run-to-block schedule for
// every 1-cut, to bind the extractor-level result to the reader.

type c04Case struct {
	Frames []string `json:"frames_hex"`
	Cuts   []int    `json:"cuts"` // cut positions in the concatenated stream (reads end there)
	Conn   bool     `json:"via_connection,omitempty"`
}

type c04Got struct {
	ID, Serial uint16
	Phone      string
	Body, Raw  []byte
	AfterRead  int // index of the read that delivered it
}

func c04Menu() [][]byte {
	p := "13800138000"
	var out [][]byte
	add := func(h ref.Header, body []byte) { out = append(out, ref.Encode(h, body)) }
	add(ref.TermHeader(0x0002, false, p, 1), nil)
	add(ref.TermHeader(0x0002, false, p, 1), nil) // identical neighbour
	add(ref.TermHeader(0x0002, true, p, 2), nil)
	add(ref.TermHeader(0x0200, false, p, 3), ref.Loc28(1, 2))
	add(ref.TermHeader(0x0200, true, p, 0x7E7D), ref.Loc28(0x7E7D7E7D, 0x7D7E7D7E))
	add(ref.TermHeader(0x0F01, false, p, 5), []byte{0x7E})
	add(ref.TermHeader(0x0F01, false, p, 6), []byte{0x7D, 0x7E, 0x7D, 0x7E, 0x01})
	add(ref.TermHeader(0x0102, false, p, 7), []byte("13800138000"))
	add(ref.TermHeader(0x0801, false, "7e7d7e7d7e7d", 8), ref.SampleBody(0x0801, false, p, 1))
	add(ref.TermHeader(0x0100, true, p, 9), ref.SampleBody(0x0100, true, p, 0))
	add(ref.TermHeader(0x0F02, false, p, 10), bytes.Repeat([]byte{0x7E}, 1023)) // escaped frame of 2077 bytes
	add(ref.TermHeader(0x0F02, false, p, 11), bytes.Repeat([]byte{0x41}, 1005)) // frame of exactly 1023 bytes? (header 13 + 1005 + 3)
	add(ref.TermHeader(0x0F02, true, p, 12), bytes.Repeat([]byte{0x42}, 1023))
	add(ref.TermHeader(0x0704, false, p, 13), ref.SampleBody(0x0704, false, p, 0))
	return out
}

// c04Feed plays the reads against a fresh extractor, re-using one 1023-byte
// buffer like connection.reader, and snapshots each message when delivered.
var c04States = map[uint64]struct{}{}

func c04Feed(stream []byte, cuts []int) (got []c04Got, kept []*service.Message, errAt int, perr error, reads int) {
	ps := service.VerifNewParser()
	buf := make([]byte, 1023)
	errAt = -1
	pos := 0
	bounds := append(append([]int(nil), cuts...), len(stream))
	for _, b := range bounds {
		for pos < b {
			n := min(b-pos, len(buf))
			copy(buf, stream[pos:pos+n])
			pos += n
			msgs, err := ps.Parse(buf[:n])
			for _, m := range msgs {
				h := m.JTMessage.Header
				got = append(got, c04Got{ID: h.ID, Serial: h.SerialNumber, Phone: h.TerminalPhoneNo,
					Body: append([]byte(nil), m.JTMessage.Body...), Raw: append([]byte(nil), m.ExtensionFields.TerminalData...), AfterRead: reads})
				kept = append(kept, m)
			}
			reads++
			if len(c04States) < 3000000 {
				h, _ := ps.Pending()
				c04States[uint64(h)<<32|uint64(len(got))<<16|hashBytes(buf[:min(n, 8)])&0xFFFF] = struct{}{}
			}
			if err != nil {
				return got, kept, reads - 1, err, reads
			}
		}
	}
	return got, kept, -1, nil, reads
}

func c04Eval(c c04Case) (sig, diag string, reads int) {
	var frames [][]byte
	var stream []byte
	var ends []int
	for _, f := range c.Frames {
		b := unhx(f)
		frames = append(frames, b)
		stream = append(stream, b...)
		ends = append(ends, len(stream))
	}
	if c.Conn {
		return c04EvalConn(c, frames, stream)
	}
	var got []c04Got
	var kept []*service.Message
	var errAt int
	var perr error
	if p := vc.Catch(func() { got, kept, errAt, perr, reads = c04Feed(stream, c.Cuts) }); p != "" {
		return "panic:" + vc.PanicSite(p), "frame extractor panicked: " + p, reads
	}
	where := fmt.Sprintf("%d frames, %d bytes, cuts %v", len(frames), len(stream), c.Cuts)
	if perr != nil {
		return "valid-stream-rejected", fmt.Sprintf("read %d of a stream of valid frames returned %v (%s)", errAt, perr, where), reads
	}
	if len(got) != len(frames) {
		return "message-count", fmt.Sprintf("%d messages extracted from %d frames (%s)", len(got), len(frames), where), reads
	}
	// the read in which each frame's closing delimiter arrives
	readEnd := func(off int) int {
		r, pos := 0, 0
		bounds := append(append([]int(nil), c.Cuts...), len(stream))
		for _, b := range bounds {
			for pos < b {
				n := min(b-pos, 1023)
				pos += n
				if pos >= off {
					return r
				}
				r++
			}
		}
		return r
	}
	for i, g := range got {
		w, err := ref.Decode(frames[i])
		if err != nil {
			panic("c04: menu frame invalid")
		}
		switch {
		case g.ID != w.ID || g.Serial != w.Serial || g.Phone != ref.PhoneString(w.PhoneBCD):
			return "message-header", fmt.Sprintf("message %d is %04x #%d from %s, frame %d is %04x #%d from %s (%s)", i, g.ID, g.Serial, g.Phone, i, w.ID, w.Serial, ref.PhoneString(w.PhoneBCD), where), reads
		case !bytes.Equal(g.Body, w.Body):
			return "message-body", fmt.Sprintf("message %d body %s, frame body %s (%s)", i, hx(g.Body), hx(w.Body), where), reads
		case !bytes.Equal(g.Raw, frames[i]):
			return "message-raw", fmt.Sprintf("message %d raw frame %s, sent %s (%s)", i, hx(g.Raw), hx(frames[i]), where), reads
		case g.AfterRead != readEnd(ends[i]):
			return "delivery-time", fmt.Sprintf("message %d was delivered by read %d, its closing delimiter arrived in read %d (%s)", i, g.AfterRead, readEnd(ends[i]), where), reads
		}
		// still intact after all later reads (the extractor re-used its buffers meanwhile)
		m := kept[i]
		if !bytes.Equal(m.JTMessage.Body, w.Body) || !bytes.Equal(m.ExtensionFields.TerminalData, frames[i]) {
			return "message-unstable", fmt.Sprintf("message %d changed after later reads (%s)", i, where), reads
		}
	}
	return "", "", reads
}

// connection-level replay of one segmentation under the run-to-block schedule
func c04EvalConn(c c04Case, frames [][]byte, stream []byte) (sig, diag string, reads int) {
	type rec struct{ w *world }
	mk := func() (func(), any) {
		vnet.Reset()
		r := &rec{}
		return func() {
			r.w = startWorld(worldOpts{})
			p := r.w.dial()
			pos := 0
			for _, b := range append(append([]int(nil), c.Cuts...), len(stream)) {
				if b > pos {
					p.Send(stream[pos:b])
					pos = b
				}
			}
		}, r
	}
	x := &vs.Explorer{Make: mk, Check: func(*vs.Result, any) []vs.Violation { return nil }}
	res, user, _ := x.RunOnce(nil, nil, false)
	if v := baseViolations(res, serverIdle); len(v) > 0 {
		return "conn:" + v[0].Sig, v[0].Msg, 0
	}
	w := user.(*rec).w
	var seen []snap
	for _, e := range w.ev {
		if e.Kind == "tread" || e.Kind == "unsupported" {
			seen = append(seen, e.Snap)
		}
	}
	if len(seen) != len(frames) {
		return "conn:message-count", fmt.Sprintf("connection delivered %d messages for %d frames (cuts %v)", len(seen), len(frames), c.Cuts), 0
	}
	for i, s := range seen {
		wf, _ := ref.Decode(frames[i])
		if s.ID != wf.ID || s.Serial != wf.Serial || !bytes.Equal(s.Body, wf.Body) || !bytes.Equal(s.TermData, frames[i]) {
			return "conn:message-content", fmt.Sprintf("connection message %d is %04x #%d body %s; frame is %04x #%d body %s (cuts %v)", i, s.ID, s.Serial, hx(s.Body), wf.ID, wf.Serial, hx(wf.Body), c.Cuts), 0
		}
	}
	return "", "", len(c.Cuts) + 1
}

func init() {
	vc.Register(&vc.Check{
		ID: "C04", Level: "model_checking",
		Rule: "streams = ALL sequences of 1..2 (thorough 3) frames from a 14-frame menu (both versions, bodies 0..1023 bytes, escape-dense, an escaped frame of 2077 bytes, identical neighbours); partitions: unsegmented, frame by frame, byte by byte, EVERY 1-cut, and EVERY 2-cut for streams <= 250 bytes (thorough <= 400; longer streams: 2-cuts among positions within 1 byte of a delimiter, escape pair, header/body boundary or multiple of 1023), 3-cuts <= 80 bytes in thorough; quick additionally: all 3- and 4-frame streams over the frames of <= 24 bytes with every 2-cut (and every 3-cut when <= 64 bytes); reads longer than 1023 bytes are split like the reader's buffer. " +
			"Each partition is played against the real frame extractor from one re-used 1023-byte buffer; every 1-cut of every 1..2-frame stream (streams over 200 bytes: the cuts near structural positions) also through the real connection.reader on a virtual socket. states = distinct (buffered byte count, delivered count, head of the last read) extractor states per worker, transitions = reads. Non-trivial = partition with >=1 cut inside a frame",
		Assumptions: []string{"reference deframer harness/ref/frame.go", "the extractor is reached through the VerifParser accessor (build tag verif, added by overlay); the connection-level runs use no accessor"},
		Run:         c04Run,
		Drivers: map[string]func(json.RawMessage) string{"c04": func(raw json.RawMessage) string {
			var c c04Case
			_ = json.Unmarshal(raw, &c)
			_, d, _ := c04Eval(c)
			return d
		}},
	})
}

func c04Run(ctx *vc.Ctx, rep *vc.Report) {
	menu := c04Menu()
	maxSeq, lim2, lim3 := 2, 250, 0
	if ctx.Thorough() {
		maxSeq, lim2, lim3 = 3, 400, 80
	}
	states := map[string]struct{}{}
	var idx int64
	try := func(frames [][]byte, cuts []int, conn bool, nontrivial bool) {
		idx++
		if !ctx.Mine(idx) {
			return
		}
		c := c04Case{Cuts: cuts, Conn: conn}
		for _, f := range frames {
			c.Frames = append(c.Frames, hx2(f))
		}
		sig, diag, reads := c04Eval(c)
		rep.Evaluations++
		rep.Transitions += int64(reads)
		rep.TracesValidated++
		if nontrivial {
			rep.Nontrivial++
		}
		if sig != "" {
			rep.Outcome("fail:" + sig)
			rep.Add(sig, diag, "c04", c)
		} else if conn {
			rep.Outcome("ok-connection")
		} else {
			rep.Outcome(fmt.Sprintf("ok-cuts=%d", min(len(cuts), 3)))
		}
		if idx%200003 == 0 {
			rep.Sample(map[string]any{"frames": len(frames), "stream_bytes": c04Len(frames), "cuts": cuts})
		}
	}
	var rec func(seq []int)
	rec = func(seq []int) {
		if ctx.Expired() || rep.TooMany() {
			rep.Truncated = rep.Truncated || ctx.Expired()
			return
		}
		if len(seq) > 0 {
			var frames [][]byte
			var bounds []int
			L := 0
			structural := map[int]bool{}
			for _, i := range seq {
				f := menu[i]
				frames = append(frames, f)
				var esc []int
				for off, b := range f {
					if b == 0x7E || b == 0x7D {
						esc = append(esc, off)
					}
				}
				for k, off := range esc { // delimiters and escape pairs; of a long run only the first and last six
					if k < 6 || k >= len(esc)-6 {
						structural[L+off] = true
					}
				}
				hl := 13
				if f[3]&0x40 != 0 {
					hl = 18
				}
				structural[L+hl] = true
				L += len(f)
				bounds = append(bounds, L)
			}
			for k := 1023; k < L; k += 1023 {
				structural[k] = true
			}
			near := func(p int) bool { return structural[p-1] || structural[p] || structural[p+1] }
			inside := func(p int) bool {
				for _, b := range bounds {
					if p == b {
						return false
					}
				}
				return p > 0 && p < L
			}
			try(frames, nil, false, false)
			try(frames, bounds[:len(bounds)-1], false, false)
			if L <= 600 || ctx.Thorough() {
				all := make([]int, 0, L)
				for p := 1; p < L; p++ {
					all = append(all, p)
				}
				try(frames, all, false, true) // byte by byte
			}
			for a := 1; a < L; a++ {
				try(frames, []int{a}, false, inside(a))
				if len(seq) <= 2 && (L <= 200 || near(a)) {
					try(frames, []int{a}, true, inside(a))
				}
			}
			for a := 1; a < L; a++ {
				if L > lim2 && !near(a) {
					continue
				}
				for b := a + 1; b < L; b++ {
					if L > lim2 && !near(b) {
						continue
					}
					try(frames, []int{a, b}, false, inside(a) || inside(b))
				}
			}
			if L <= lim3 {
				for a := 1; a < L; a++ {
					for b := a + 1; b < L; b++ {
						for c := b + 1; c < L; c++ {
							try(frames, []int{a, b, c}, false, true)
						}
					}
				}
			}
			// extractor states visited by the frame-by-frame run (for the evidence)
			if ctx.Worker == 0 {
				states[fmt.Sprintf("%v", seq)] = struct{}{}
			}
		}
		if len(seq) == maxSeq {
			return
		}
		for i := range menu {
			rec(append(append([]int(nil), seq...), i))
		}
	}
	rec(nil)
	// three- and four-frame streams over the short frames: every 2-cut, and every 3-cut of streams <= 64 bytes
	// (a stale scan/offset state needs: a split frame, then a fast-path read, then a coalesced read)
	if !ctx.Thorough() {
		var short []int
		for i, f := range menu {
			if len(f) <= 24 {
				short = append(short, i)
			}
		}
		var rec3 func(seq []int, n int)
		rec3 = func(seq []int, n int) {
			if len(seq) == n {
				var frames [][]byte
				L := 0
				for _, i := range seq {
					frames = append(frames, menu[i])
					L += len(menu[i])
				}
				for a := 1; a < L; a++ {
					for b := a + 1; b < L; b++ {
						try(frames, []int{a, b}, false, true)
						if L <= 64 {
							for c := b + 1; c < L; c++ {
								try(frames, []int{a, b, c}, false, true)
							}
						}
					}
				}
				return
			}
			for _, i := range short {
				if ctx.Expired() {
					rep.Truncated = true
					return
				}
				rec3(append(append([]int(nil), seq...), i), n)
			}
		}
		rec3(nil, 3)
		rec3(nil, 4)
	}
	_ = states
	rep.States += int64(len(c04States))
	if rep.States == 0 {
		rep.States = 1
	}
}

func c04Len(fs [][]byte) int {
	n := 0
	for _, f := range fs {
		n += len(f)
	}
	return n
}
