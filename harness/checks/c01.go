package checks

import (
	"bytes"
	"encoding/json"
	"fmt"

	"github.com/cuteLittleDevil/go-jt808/protocol/jt808"
	"github.com/cuteLittleDevil/go-jt808/shared/consts"
	"verif/harness/ref"
	"verif/harness/vc"
)

// C01 - frame encode/decode round trip, delimiter transparency (E2).

type c01Case struct {
	V2019    bool   `json:"v2019"`
	Frag     bool   `json:"frag"`
	Encrypt  bool   `json:"encrypt"`
	PhoneBCD string `json:"phone_bcd"`
	Serial   uint16 `json:"serial"`
	SrcID    uint16 `json:"src_id"`
	ReplyID  uint16 `json:"reply_id"`
	PSerial  uint16 `json:"platform_serial"`
	Body     string `json:"body_hex"`
	Reuse    int    `json:"reuse"` // number of earlier encodes on the same header object
	// PriorOther: the message object that decodes the source frame has decoded a frame of the OTHER header layout
	// (2013 <-> 2019) before (one message value per connection, terminals of both generations)
	PriorOther bool `json:"message_decoded_other_layout_first,omitempty"`
}

var c01Phones = []string{"000000000000", "000000000001", "013800138000", "123456789012", "7e7d01027e7d", "999999999999"}
var c01Phones19 = []string{"00000000000000000000", "00000000000000000001", "00000000013800138000", "12345678901234567890", "7e7d01027e7d7e7d0102", "99999999999999999999"}
var c01Serials = []uint16{0, 1, 0x7D, 0x7E, 0x7D7E, 0xFFFF}
var c01ReplyIDs = []uint16{0, 0x8001, 0x8100, 0x007E, 0x7E7D}
var c01PSerials = []uint16{0, 1, 0x007D, 0x7E00, 0x7D7E, 0x7E7E, 0xFFFF}

type c01Src struct {
	c     c01Case
	frame []byte
}

func c01Sources() []c01Src {
	var out []c01Src
	for _, prior := range []bool{false, true} {
		for _, v19 := range []bool{false, true} {
			for _, frag := range []bool{false, true} {
				for _, enc := range []bool{false, true} {
					if prior && enc {
						continue
					}
					phones := c01Phones
					if v19 {
						phones = c01Phones19
					}
					for _, ph := range phones {
						for _, ser := range c01Serials {
							h := ref.Header{ID: 0x0200, V2019: v19, Fragmented: frag, Serial: ser, PhoneBCD: unhx(ph)}
							if v19 {
								h.VersionNo = 1
							}
							if enc {
								h.Encrypt = 1
							}
							if frag {
								h.Total, h.Number = 3, 2
							}
							out = append(out, c01Src{c: c01Case{V2019: v19, Frag: frag, Encrypt: enc, PhoneBCD: ph, Serial: ser, SrcID: 0x0200, PriorOther: prior},
								frame: ref.Encode(h, []byte{1, 2, 3})})
						}
					}
				}
			}
		}
	}
	return out
}

func c01Patterns(n int) [][]byte {
	mk := func(f func(i int) byte) []byte {
		b := make([]byte, n)
		for i := range b {
			b[i] = f(i)
		}
		return b
	}
	return [][]byte{
		mk(func(int) byte { return 0x7E }),
		mk(func(int) byte { return 0x7D }),
		mk(func(i int) byte { return []byte{0x7D, 0x7E}[i%2] }),
		mk(func(i int) byte { return []byte{0x7D, 0x01}[i%2] }),
		mk(func(i int) byte { return []byte{0x7D, 0x02}[i%2] }),
		mk(func(int) byte { return 0 }),
		mk(func(i int) byte { return byte(i) }),
	}
}

// c01Run runs one case; it returns (diagnosis, signature, escaped?, steered checksum value).
func c01Eval(c c01Case, steer int) (diag, sig string, escaped bool, cks byte) {
	body := unhx(c.Body)
	h := ref.Header{ID: c.SrcID, V2019: c.V2019, Fragmented: c.Frag, Serial: c.Serial, PhoneBCD: unhx(c.PhoneBCD)}
	if c.V2019 {
		h.VersionNo = 1
	}
	if c.Encrypt {
		h.Encrypt = 1
	}
	if c.Frag {
		h.Total, h.Number = 3, 2
	}
	srcFrame := ref.Encode(h, []byte{1, 2, 3})
	src := jt808.NewJTMessage()
	if c.PriorOther {
		oh := ref.Header{ID: 0x0002, V2019: !c.V2019, Serial: 77, PhoneBCD: unhx("013900139000")}
		if oh.V2019 {
			oh.VersionNo, oh.PhoneBCD = 1, unhx("00000000013900139000")
		}
		if err := src.Decode(exact(ref.Encode(oh, nil))); err != nil {
			return "prior frame rejected: " + err.Error(), "source-rejected", false, 0
		}
	}
	if err := src.Decode(exact(srcFrame)); err != nil {
		return "source frame rejected: " + err.Error(), "source-rejected", false, 0
	}
	wantID := c.ReplyID
	if wantID == 0 {
		wantID = c.SrcID
	}
	// expected header of the framed message as the standard lays it out
	eh := ref.Header{ID: wantID, V2019: c.V2019, Serial: c.PSerial, PhoneBCD: unhx(c.PhoneBCD), VersionNo: h.VersionNo, Encrypt: h.Encrypt}
	if steer >= 0 && len(body) > 0 {
		raw := ref.EncodeRaw(eh, body)
		body = append([]byte(nil), body...)
		body[len(body)-1] ^= raw[len(raw)-1] ^ byte(steer)
	}
	hdr := src.Header
	for k := 0; k < c.Reuse; k++ { // documented reuse of the source header object
		hdr.ReplyID = 0x8001
		hdr.PlatformSerialNumber = uint16(k)
		_ = hdr.Encode([]byte{byte(k), 0x7E})
	}
	hdr.ReplyID = c.ReplyID
	hdr.PlatformSerialNumber = c.PSerial
	var frame []byte
	if p := vc.Catch(func() { frame = hdr.Encode(exact(body)) }); p != "" {
		return "Encode panicked: " + p, "encode-panic:" + vc.PanicSite(p), false, 0
	}
	kind := fmt.Sprintf("frag=%v,len>=1000=%v", c.Frag, len(body) >= 1000)
	// delimiter transparency
	if len(frame) < 2 || frame[0] != 0x7E || frame[len(frame)-1] != 0x7E {
		return fmt.Sprintf("frame not delimited: %s", hx(frame)), "delimiters:" + kind, false, 0
	}
	in := frame[1 : len(frame)-1]
	for i, b := range in {
		if b == 0x7E {
			return fmt.Sprintf("interior 0x7E at %d: %s", i+1, hx(frame)), "interior-7e:" + kind, false, 0
		}
		if b == 0x7D {
			escaped = true
			if i+1 >= len(in) || (in[i+1] != 0x01 && in[i+1] != 0x02) {
				return fmt.Sprintf("0x7D not followed by 01/02 at %d: %s", i+1, hx(frame)), "bad-escape:" + kind, escaped, 0
			}
		}
	}
	// reference reading
	rf, rerr := ref.Decode(frame)
	got := jt808.NewJTMessage()
	var lerr error
	if p := vc.Catch(func() { lerr = got.Decode(exact(frame)) }); p != "" {
		return "Decode panicked: " + p, "decode-panic:" + vc.PanicSite(p), escaped, 0
	}
	if rerr != nil || lerr != nil {
		return fmt.Sprintf("framed message is not decodable: library=%v reference=%v frame=%s", lerr, rerr, hx(frame)),
			"undecodable:" + kind, escaped, 0
	}
	wantPhone := ref.PhoneString(unhx(c.PhoneBCD))
	wantVer := consts.JT808Protocol2013
	if c.V2019 {
		wantVer = consts.JT808Protocol2019
	}
	gh := got.Header
	switch {
	case gh.ID != wantID || rf.ID != wantID:
		return fmt.Sprintf("ID %#x/%#x want %#x", gh.ID, rf.ID, wantID), "field:id:" + kind, escaped, rf.Checksum
	case gh.TerminalPhoneNo != wantPhone || !bytes.Equal(rf.PhoneBCD, unhx(c.PhoneBCD)):
		return fmt.Sprintf("phone %q/%x want %q", gh.TerminalPhoneNo, rf.PhoneBCD, wantPhone), "field:phone:" + kind, escaped, rf.Checksum
	case gh.ProtocolVersion != wantVer || rf.V2019 != c.V2019:
		return fmt.Sprintf("version %v/%v want %v", gh.ProtocolVersion, rf.V2019, wantVer), "field:version:" + kind, escaped, rf.Checksum
	case gh.SerialNumber != c.PSerial || rf.Serial != c.PSerial:
		return fmt.Sprintf("serial %d/%d want %d", gh.SerialNumber, rf.Serial, c.PSerial), "field:serial:" + kind, escaped, rf.Checksum
	case !bytes.Equal(got.Body, body) || !bytes.Equal(rf.Body, body):
		return fmt.Sprintf("body %s / %s want %s", hx(got.Body), hx(rf.Body), hx(body)), "field:body:" + kind, escaped, rf.Checksum
	}
	// the framed bytes stay what they were while the library frames (and decodes) further messages: a frame queued
	// for a writer or kept for retransmission is still "the message the library framed"
	snap := append([]byte(nil), frame...)
	other := src.Header
	other.ReplyID = 0x8100
	for k, b := range [][]byte{{}, {0x7E, 0x7D, byte(c.PSerial)}, body, bytes.Repeat([]byte{0x7D}, len(body)+9)} {
		hdr.PlatformSerialNumber = c.PSerial + uint16(k) + 1
		other.PlatformSerialNumber = uint16(k)
		later := hdr.Encode(exact(b))
		later2 := other.Encode(exact(b))
		_ = jt808.NewJTMessage().Decode(exact(later2))
		if !bytes.Equal(frame, snap) {
			return fmt.Sprintf("the frame returned earlier changed when a later message (body %s) was framed: was %s, now %s", hx(b), hx(snap), hx(frame)),
				"earlier-frame-overwritten:" + kind, escaped, rf.Checksum
		}
		_ = later
	}
	return "", "", escaped, rf.Checksum
}

func init() {
	vc.Register(&vc.Check{
		ID:    "C01",
		Level: "exploration",
		Rule: "source headers = library decode of reference-encoded terminal frames (2 versions x fragmented x encrypt bit x 6 BCD phones x 6 serials = 288, plus the 144 unencrypted ones decoded by a message value that has decoded a frame of the OTHER layout before) " +
			"x reply IDs {0,8001,8100,007E,7E7D} x 7 platform serials x bodies (ALL strings over {7E,7D,01,02,00,FF} of length 0..5, and 7 patterns at lengths 6..16, 254..258, 998..1002, 1021..1023, " +
			"each also with the last byte solved so that the checksum is 0x7E and 0x7D); quick = every (header,body) pair with rotating (reply ID, serial) plus every (header,reply ID,serial) triple on a 20-body menu, " +
			"thorough = full product; a case is non-trivial when the framed bytes contain at least one escape pair; after each case 8 further messages (empty, short, same and longer bodies, same and a second header object) are framed and the first frame must be byte-identical to what it was",
		Assumptions: []string{"reference codec /verif/harness/ref/frame.go is an independent reading of JT/T 808 tables 2/3 and the escape rule",
			"bodies beyond the listed lengths/alphabet are not enumerated"},
		Run: c01Run,
		Drivers: map[string]func(json.RawMessage) string{"c01": func(raw json.RawMessage) string {
			var k struct {
				C     c01Case `json:"c"`
				Steer int     `json:"steer"`
			}
			_ = json.Unmarshal(raw, &k)
			d, _, _, _ := c01Eval(k.C, k.Steer)
			return d
		}},
	})
}

func c01Run(ctx *vc.Ctx, rep *vc.Report) {
	srcs := c01Sources()
	// body menu
	small := newStrSpace([]byte{0x7E, 0x7D, 0x01, 0x02, 0x00, 0xFF}, 5)
	type bodyT struct {
		b     []byte
		steer int
	}
	var bodies []bodyT
	buf := make([]byte, 0, 8)
	for i := int64(0); i < small.total; i++ {
		bodies = append(bodies, bodyT{append([]byte(nil), small.at(i, buf)...), -1})
	}
	var lens []int
	for l := 6; l <= 16; l++ {
		lens = append(lens, l)
	}
	lens = append(lens, 254, 255, 256, 257, 258, 998, 999, 1000, 1001, 1002, 1021, 1022, 1023)
	for _, l := range lens {
		for _, p := range c01Patterns(l) {
			bodies = append(bodies, bodyT{p, -1}, bodyT{p, 0x7E}, bodyT{p, 0x7D})
		}
	}
	var menu []bodyT
	for _, i := range []int{0, 1, 2, 7, 8, 9, 43, 44} {
		menu = append(menu, bodies[i])
	}
	for _, l := range []int{6, 255, 999, 1000, 1023} {
		p := c01Patterns(l)
		menu = append(menu, bodyT{p[2], -1}, bodyT{p[6], 0x7E}, bodyT{p[0], 0x7D})
	}
	steered := map[byte]int64{}
	one := func(idx int64, s c01Src, rid, ps uint16, b bodyT, reuse int) {
		if !ctx.Mine(idx) {
			return
		}
		c := s.c
		c.ReplyID, c.PSerial, c.Body, c.Reuse = rid, ps, hx2(b.b), reuse
		diag, sig, esc, cks := c01Eval(c, b.steer)
		rep.Evaluations++
		if esc {
			rep.Nontrivial++
		}
		if cks == 0x7E || cks == 0x7D {
			steered[cks]++
		}
		if diag != "" {
			rep.Outcome("fail:" + sig)
			rep.Add(sig, diag, "c01", map[string]any{"c": c, "steer": b.steer})
		} else if esc {
			rep.Outcome("ok-escaped")
		} else {
			rep.Outcome("ok-plain")
		}
		if idx%400003 == 0 {
			rep.Sample(map[string]any{"case": c, "steer": b.steer})
		}
	}
	var idx int64
	combos := len(c01ReplyIDs) * len(c01PSerials)
	if ctx.Thorough() {
		for _, s := range srcs {
			for bi, b := range bodies {
				if ctx.Expired() || rep.TooMany() {
					rep.Truncated = ctx.Expired()
					break
				}
				for k := 0; k < combos; k++ {
					one(idx, s, c01ReplyIDs[k%len(c01ReplyIDs)], c01PSerials[k/len(c01ReplyIDs)], b, (bi+k)%3)
					idx++
				}
			}
		}
	} else {
		for si, s := range srcs {
			for bi, b := range bodies {
				k := (si*7 + bi) % combos
				one(idx, s, c01ReplyIDs[k%len(c01ReplyIDs)], c01PSerials[k/len(c01ReplyIDs)], b, (si+bi)%3)
				idx++
			}
			if ctx.Expired() || rep.TooMany() {
				rep.Truncated = ctx.Expired()
				break
			}
		}
		for _, s := range srcs {
			for k := 0; k < combos; k++ {
				for bi, b := range menu {
					one(idx, s, c01ReplyIDs[k%len(c01ReplyIDs)], c01PSerials[k/len(c01ReplyIDs)], b, bi%3)
					idx++
				}
			}
		}
	}
	rep.Count("checksum_is_7e", steered[0x7E])
	rep.Count("checksum_is_7d", steered[0x7D])
}
