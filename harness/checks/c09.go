package checks

import (
	"encoding/json"
	"fmt"

	"verif/harness/vc"
	"verif/harness/vs"
)

// C09 - delivered messages are stable (E1).

func stabCheck(res *vs.Result, user any) []vs.Violation {
	r := user.(*convRun)
	var out []vs.Violation
	if r.scn.NoFilter || len(r.scn.IdleMs) > 0 {
		// lone sub-packages reach the handlers here (or, with a stalled transfer, re-requests are written whose content
		// is C14's subject): the reply oracle does not apply, only crashes and stability
		if out = baseViolations(res, serverIdle); len(out) > 0 {
			return out
		}
	} else {
		out = convCheck(res, user)
	}
	if len(out) > 0 {
		// a wrong reply is C09's business only when it was computed from another message's bytes;
		// keep the signature but mark the origin
		for i := range out {
			out[i].Sig = "reply/" + out[i].Sig
		}
		if res.Panic != nil {
			return out
		}
	}
	// final comparison at quiescence (after the connection closed, if the script closes)
	r.w.checkStable("quiescence")
	for _, m := range r.w.mutated {
		out = append(out, vs.Violation{Sig: "message-mutated", Msg: m})
		break
	}
	return out
}

func c09Scenarios(thorough bool) []convScn {
	p := "13800138000"
	plain1 := tmsg{ID: 0x0002, Phone: p, Serial: 1}
	plain2 := tmsg{ID: 0x0200, Phone: p, Serial: 2}
	plain3 := tmsg{ID: 0x0100, Phone: p, Serial: 3}
	esc1 := tmsg{ID: 0x0200, Phone: p, Serial: 0x7E7D, Body: hx2(append([]byte{0x7E, 0x7D, 0x7E, 0x7D}, make([]byte, 24)...))}
	esc2 := tmsg{ID: 0x0801, Phone: p, Serial: 5, Variant: 1}
	fr1 := tmsg{ID: 0x0801, Phone: p, Serial: 10, Total: 2, Number: 1, Body: "000000aa0000010211223344556677889900112233445566778899001122334455667788"}
	fr2 := tmsg{ID: 0x0801, Phone: p, Serial: 11, Total: 2, Number: 2, Body: "a1a2a3a4a5a6a7a8a9"}
	frE := tmsg{ID: 0x0801, Phone: p, Serial: 12, Total: 2, Number: 2, Body: "7e7d7e7d0102"}
	var out []convScn
	hist := [][]tmsg{
		{plain1, plain2},
		{plain2, esc1},
		{esc1, plain1},
		{fr1, fr2},
		{plain1, plain2, plain3},
		{fr1, fr2, plain1},
		{fr1, plain1, frE},
		{esc2, esc1, plain1},
		// two coalesced reads in a row (the second again takes the buffered path) and split frames
		{plain1, plain2, plain3, tmsg{ID: 0x0002, Phone: p, Serial: 4}},
		{plain2, esc1, plain1, plain3, tmsg{ID: 0x0200, Phone: p, Serial: 6}},
		{fr1, fr2, plain1, plain2},
		// short + long in one read, then a short coalesced read that fits into what is left of the first read's buffer
		{plain1, plain3, tmsg{ID: 0x0002, Phone: p, Serial: 7}, tmsg{ID: 0x0002, Phone: p, Serial: 8}},
		{plain1, esc2, tmsg{ID: 0x0002, Phone: p, Serial: 9}, tmsg{ID: 0x0002, Phone: p, Serial: 10}, plain1},
		// two reassembled uploads on one connection (the second no larger than the first)
		{fr1, fr2, tmsg{ID: 0x0801, Phone: p, Serial: 20, Total: 2, Number: 1, Body: "000000bb0000010299887766554433221100998877665544332211009988776655443322"}, tmsg{ID: 0x0801, Phone: p, Serial: 21, Total: 2, Number: 2, Body: "b1b2b3"}},
	}
	for i, h := range hist {
		for _, mode := range []string{"one-per-read", "pairs", "close", "split"} {
			s := convScn{Name: fmt.Sprintf("stab:%d:%s", i, mode), Conns: [][]tmsg{h}, Stab: true}
			switch mode {
			case "pairs":
				s.Pairs = true
			case "close":
				s.Close = true
			case "split":
				s.Split = true
			}
			out = append(out, s)
		}
	}
	// a transfer that never completes, the terminal hangs up: what the callbacks were handed (the first packet is what
	// the join callback sees; with the sub-package filter off every packet reaches the handlers) must survive teardown
	frX := tmsg{ID: 0x0801, Phone: p, Serial: 30, Total: 3, Number: 1, Body: "000000cc00000102aabbccddeeff00112233445566778899aabbccddeeff001122334455"}
	frY := tmsg{ID: 0x0801, Phone: p, Serial: 31, Total: 3, Number: 3, Body: "c1c2c3c4"}
	for i, h := range [][]tmsg{{frX}, {plain1, frX}, {frX, frY}, {frX, plain2, frY}, {fr1}} {
		for _, nf := range []bool{false, true} {
			out = append(out, convScn{Name: fmt.Sprintf("stab:incomplete:%d:nofilter=%v", i, nf), Conns: [][]tmsg{h}, Stab: true, Close: true, NoFilter: nf})
		}
	}
	// a transfer that stalls for more than 5 s: the next frames make the server issue re-requests (0x8003) built from
	// the first packet's header - the packet the callbacks were handed must not change with them
	for i, h := range [][]tmsg{{frX, plain1}, {frX, frY, plain1, plain2}} {
		idle := []int{0, 5001}
		if len(h) == 4 {
			idle = []int{0, 0, 5001, 5001}
		}
		for _, nf := range []bool{false, true} {
			out = append(out, convScn{Name: fmt.Sprintf("stab:stalled:%d:nofilter=%v", i, nf), Conns: [][]tmsg{h}, IdleMs: idle, Stab: true, NoFilter: nf})
		}
	}
	return out
}

func init() {
	vc.Register(&vc.Check{
		ID:         "C09",
		Level:      "model_checking",
		SingleProc: true,
		Rule: "one connection, 14 histories of 2..5 frames from {escape-free, escaped, fragmented pair (reassembled), fragmented+ordinary interleaved}, delivered one frame per read, two per read, every frame split in the middle (each read = tail of one frame + head of the next), and one per read followed by the terminal closing; plus 5 histories that leave a sub-package transfer incomplete when the terminal hangs up, with the sub-package filter on (the join callback holds packet 1) and off (every packet reaches the handlers); plus 2 histories in which the transfer stalls for more than 5 s of virtual time and later frames make the server build re-requests from the first packet's header (filter on and off); " +
			"recording handlers snapshot every delivered Message inside OnReadExecutionEvent and keep the pointer; ALL schedules of reader/writer/terminal within the deviation bound (2 quick, 3 thorough) are executed; " +
			"at every later callback and at quiescence each kept Message is compared with its snapshot, and every reply on the socket with the reference reply of the snapshotted request. Then EVERY thread interleaving (no preemption bound) of every history above with the default environment answers (timers fire when nothing else can run, first ready select case (moving on to the next when the same select is met again), writes succeed), using a cache of happens-before state keys: each state is expanded once, every state and transition is executed at least once (not every path); the cache is validated per run by a self-test (cached search = every-schedule search on 20 programs that fail when a component of the key is removed) and by comparing a harness digest whenever a key is met again; the flag exhaustive refers to the deviation-bounded families; for the cached pass the counters unbounded_* say how many scenarios closed and how many stopped at the state limit (quick 20000 states, thorough 1000000). Non-trivial = schedule with >=1 deviation",
		Assumptions: []string{"scheduling points at channel/socket/once operations; unsynchronised accesses are C18's subject"},
		Run: func(ctx *vc.Ctx, rep *vc.Report) {
			bound := 2
			if ctx.Thorough() {
				bound = 3
			}
			for _, s := range c09Scenarios(ctx.Thorough()) {
				if ctx.Expired() || rep.TooMany() {
					rep.Truncated = rep.Truncated || ctx.Expired()
					return
				}
				exploreInto(ctx, rep, s, bound, true, stabCheck, "conv", false)
				if ctx.Worker == 0 {
					rep.Sample(map[string]any{"scenario": s.Name, "history": describe(s.Conns[0]), "bound": bound})
				}
			}
			// every thread interleaving of reader / writer / terminal (no preemption bound), state cache, one scenario per worker
			var idx int64
			maxStates := 20000
			if ctx.Thorough() {
				maxStates = 1000000
			}
			for _, s := range c09Scenarios(ctx.Thorough()) {
				if ctx.Expired() || rep.TooMany() {
					if ctx.Expired() {
						rep.Count("unbounded_pass_cut_short_by_time_cap", 1)
					}
					return
				}
				s := s
				exploreAll(ctx, rep, &idx, s.Name, convMake(s), stabCheck, "conv", func(f vs.Found) any { return convCase{s, f.Choices} }, maxStates, envBoundOf(0))
			}
		},
		Drivers: map[string]func(json.RawMessage) string{"conv": func(raw json.RawMessage) string { return convReplay(raw, stabCheck) }},
	})
}
