package checks

import (
	"bytes"
	"encoding/json"
	"fmt"
	"reflect"
	"regexp"
	"sort"
	"strings"
	"unicode/utf8"

	"github.com/cuteLittleDevil/go-jt808/protocol/jt808"
	"github.com/cuteLittleDevil/go-jt808/protocol/utils"
	"github.com/cuteLittleDevil/go-jt808/shared/consts"
	"verif/harness/ref"
	"verif/harness/vc"
)

// C07 - message body round trip for every message type (bounded exhaustive).
//
// c07.go        engine: choice vectors, enumeration, oracle, minimisation, helpers, registration
// c07_types.go  one generator per two-way message type
// c07_ref.go    the reference encoders (written from the standards' tables)

// c07Msg is what every two-way message type offers.
type c07Msg interface {
	Parse(*jt808.JTMessage) error
	Encode() []byte
}

// ---------------------------------------------------------------- choices

// c07Dim is one dimension of a type's value space: a menu whose first
// `small` entries take part in products and pair combinations and whose
// remaining entries are visited in the single-field sweep only.
type c07Dim struct {
	name        string
	small, full int
	nt          func(i int) bool // entry i makes the case non-trivial by itself
}

// c07Pick hands the generator functions their menu entries. In record mode
// it only learns the dimensions (every generator asks for the same dimensions
// in the same order whatever the choices are).
type c07Pick struct {
	record   bool
	thorough bool
	dims     []c07Dim
	ch       []int
	pos      int
}

func (g *c07Pick) next(name string, small, full int, nt func(int) bool) int {
	if g.record {
		g.dims = append(g.dims, c07Dim{name, small, full, nt})
		return 0
	}
	i := g.ch[g.pos]
	g.pos++
	return i
}

var (
	c07U8m  = []byte{0, 1, 0x7D, 0x7E, 0xFE, 0xFF}
	c07U16m = []uint16{0, 1, 0x7D, 0x7E, 0xFFFE, 0xFFFF, 0x1234, 0x7E7D, 0x0100}
	c07U32m = []uint32{0, 1, 0x7D, 0x7E, 0xFFFFFFFE, 0xFFFFFFFF, 0x12345678, 0x7D7E0102, 0x01000000, 0x00010000}
	c07U64m = []uint64{0, 1, 0x7D, 0x7E, 0xFFFFFFFFFFFFFFFE, 0xFFFFFFFFFFFFFFFF, 0x0102030405060708, 1 << 32, 1 << 63}
	// times: base, all nines, an ordinary one, then every digit 1..9 at every
	// one of the 12 BCD digit positions
	c07Timem = func() []string {
		out := []string{"2000-00-00 00:00:00", "2099-99-99 99:99:99", "2024-12-06 19:04:12"}
		for pos := 0; pos < 12; pos++ {
			for d := 1; d <= 9; d++ {
				b := make([]byte, 6)
				if pos%2 == 0 {
					b[pos/2] = byte(d) << 4
				} else {
					b[pos/2] = byte(d)
				}
				out = append(out, ref.TimeString07(b))
			}
		}
		return out
	}()
	c07Pattern = strings.Repeat("0123456789ABCDEFGHIJKLMNOPQRSTUVWXYZ", 8)
)

func (g *c07Pick) u8(name string) byte { return c07U8m[g.next(name, 6, len(c07U8m), nil)] }
func (g *c07Pick) u16(name string) uint16 {
	return c07U16m[g.next(name, 6, len(c07U16m), nil)]
}
func (g *c07Pick) u32(name string) uint32 {
	return c07U32m[g.next(name, 6, len(c07U32m), nil)]
}
func (g *c07Pick) u64(name string) uint64 {
	return c07U64m[g.next(name, 6, len(c07U64m), nil)]
}
func (g *c07Pick) tm(name string) string {
	return c07Timem[g.next(name, 3, len(c07Timem), nil)]
}

// fixed: text for a BYTE[width] field: "", "a", full width, full width-1.
func (g *c07Pick) fixed(name string, width int) string {
	m := []string{"", "a", c07Pattern[:width], c07Pattern[:width-1]}
	return m[g.next(name, len(m), len(m), func(i int) bool { return i == 2 })]
}

// lstr: text for a STRING with a one-byte length in front. The library
// passes these fields through as bytes (it calls UTF82GBK/GBK2UTF8 for the
// licence plate and for string parameters only), so that non-ASCII text in
// them round-trips whatever the encoding: C07 generates ASCII here.
func (g *c07Pick) lstr(name string) string {
	m := []string{"", "a", "127.0.0.1", c07Pattern[:255], c07Pattern[:254], c07Pattern[:0x7D], c07Pattern[:0x7E]}
	return m[g.next(name, 4, len(m), func(i int) bool { return i == 3 })]
}

// lstrA: server addresses (IP or domain name); the same menu.
func (g *c07Pick) lstrA(name string) string { return g.lstr(name) }

// tail: text for a STRING that runs to the end of the body (authentication
// codes: passed through as bytes by the library, ASCII here).
func (g *c07Pick) tail(name string) string {
	m := []string{"", "a", "013800138000", c07Pattern[:200]}
	return m[g.next(name, 3, len(m), func(i int) bool { return i >= 3 })]
}

// plate: licence plate / VIN (STRING, GBK).
func (g *c07Pick) plate(name string) string {
	m := []string{"", "a", "京A12345", "LSVAU2180N2183294", "测", c07Pattern[:200], "€A12345"}
	return m[g.next(name, 4, len(m), func(i int) bool { return i >= 2 })]
}

// n: list length 0..3 (thorough 0..4), optionally also 255; min is the
// smallest length the standard allows.
func (g *c07Pick) n(name string, min int, with255 bool) int {
	m := []int{}
	top := 3
	if g.thorough {
		top = 4
	}
	for i := min; i <= top; i++ {
		m = append(m, i)
	}
	// counts at which a byte-wide product wraps (32*8, 64*4, 128*2) and the largest a one-byte count can hold
	m = append(m, 31, 32, 64, 128, 255)
	_ = with255
	return m[g.next(name, len(m), len(m), func(i int) bool { return m[i] >= 2 })]
}

func (g *c07Pick) variant(name string, k int) int { return g.next(name, k, k, nil) }

// pad: reserved bytes of a fixed length.
func (g *c07Pick) pad(name string, n int) []byte {
	if n == 0 {
		g.next(name, 1, 1, nil)
		return nil
	}
	i := g.next(name, 3, 3, nil)
	out := make([]byte, n)
	for k := range out {
		switch i {
		case 1:
			out[k] = byte(k + 1)
		case 2:
			out[k] = 0xFF
		}
	}
	return out
}

// blob: opaque trailing data.
func (g *c07Pick) blob(name string) []byte {
	m := [][]byte{nil, {0x00}, {0x7E, 0x7D, 0x01, 0x02}, []byte(c07Pattern[:288] + c07Pattern[:288])}
	return m[g.next(name, len(m), len(m), func(i int) bool { return i == 3 })]
}

// elements of lists rotate through the menus so that neighbours differ
func c07RotU8(vr, k, f int) byte { return c07U8m[(vr+k+2*f)%len(c07U8m)] }
func c07RotU16(vr, k, f int) uint16 {
	if k >= len(c07U16m) {
		return uint16(0x0100 + k)
	}
	return c07U16m[(vr+k+2*f)%len(c07U16m)]
}
func c07RotU32(vr, k, f int) uint32 {
	if k >= len(c07U32m) {
		return uint32(0x01000000 + k*0x0101)
	}
	return c07U32m[(vr+k+2*f)%len(c07U32m)]
}
func c07RotU64(vr, k, f int) uint64 { return c07U64m[(vr+k+2*f)%len(c07U64m)] }
func c07RotTime(vr, k, f int) string {
	return c07Timem[(vr*7+k*13+f*5)%len(c07Timem)]
}

// ---------------------------------------------------------------- specs

type c07Spec struct {
	typ, variant string
	ver          consts.ProtocolVersionType
	dialect      consts.ActiveSafetyType
	blank        func() c07Msg           // empty value, configuration fields set
	build        func(g *c07Pick) c07Msg // nil result = combination outside the domain
	shape        func(v c07Msg) string   // optional: stable class of the value for signatures
	parseOnly    bool                    // the type's Encode is a stub: Parse(reference body) only
	dims         []c07Dim
	reused       c07Msg // one receiver that has parsed every earlier value of this run (oracle 1b)
}

func (sp *c07Spec) key() string {
	if sp.variant == "" {
		return sp.typ
	}
	return sp.typ + "/" + sp.variant
}

const c07ProductLimit = 1000000

// c07Enumerate visits every choice vector of the spec: the full product of
// the small menus when that has at most c07ProductLimit members (plus single
// sweeps over the menu tails), otherwise base + every single-field sweep +
// all pairs of non-base small-menu values. The thorough tier adds all pairs
// in which at least one value comes from a menu tail.
func c07Enumerate(sp *c07Spec, thorough bool, visit func(ch []int) bool) (mode string) {
	mode = c07EnumerateBase(sp, visit)
	if !thorough {
		return mode
	}
	d := sp.dims
	ch := make([]int, len(d))
	for i := range d {
		for j := i + 1; j < len(d); j++ {
			for a := 1; a < d[i].full; a++ {
				for b := 1; b < d[j].full; b++ {
					if a < d[i].small && b < d[j].small {
						continue
					}
					ch[i], ch[j] = a, b
					if !visit(ch) {
						return mode
					}
				}
			}
			ch[i], ch[j] = 0, 0
		}
	}
	if mode == "pairs" {
		for i := range d {
			for j := i + 1; j < len(d); j++ {
				for k := j + 1; k < len(d); k++ {
					for a := 1; a < d[i].small; a++ {
						for b := 1; b < d[j].small; b++ {
							for c := 1; c < d[k].small; c++ {
								ch[i], ch[j], ch[k] = a, b, c
								if !visit(ch) {
									return mode
								}
							}
						}
					}
					ch[i], ch[j], ch[k] = 0, 0, 0
				}
			}
		}
		return mode + "+tail-pairs+triples"
	}
	return mode + "+tail-pairs"
}

func c07EnumerateBase(sp *c07Spec, visit func(ch []int) bool) (mode string) {
	d := sp.dims
	ch := make([]int, len(d))
	prod := int64(1)
	for _, x := range d {
		prod *= int64(x.small)
		if prod > c07ProductLimit {
			break
		}
	}
	if prod <= c07ProductLimit {
		for {
			if !visit(ch) {
				return "product"
			}
			i := 0
			for ; i < len(d); i++ {
				ch[i]++
				if ch[i] < d[i].small {
					break
				}
				ch[i] = 0
			}
			if i == len(d) {
				break
			}
		}
		for i := range d {
			for a := d[i].small; a < d[i].full; a++ {
				ch[i] = a
				if !visit(ch) {
					return "product"
				}
			}
			ch[i] = 0
		}
		return "product"
	}
	if !visit(ch) {
		return "pairs"
	}
	for i := range d {
		for a := 1; a < d[i].full; a++ {
			ch[i] = a
			if !visit(ch) {
				return "pairs"
			}
		}
		ch[i] = 0
	}
	for i := range d {
		for j := i + 1; j < len(d); j++ {
			for a := 1; a < d[i].small; a++ {
				for b := 1; b < d[j].small; b++ {
					ch[i], ch[j] = a, b
					if !visit(ch) {
						return "pairs"
					}
				}
			}
			ch[i], ch[j] = 0, 0
		}
	}
	return "pairs"
}

func (sp *c07Spec) make(ch []int, thorough bool) c07Msg {
	g := &c07Pick{ch: ch, thorough: thorough}
	return sp.build(g)
}

func (sp *c07Spec) nontrivial(ch []int) bool {
	off := 0
	for i, c := range ch {
		if c != 0 {
			off++
			if sp.dims[i].nt != nil && sp.dims[i].nt(c) {
				return true
			}
		}
	}
	return off >= 2
}

// ---------------------------------------------------------------- comparison

var c07SkipField = map[string]bool{
	"BaseHandle":           true, // no data
	"AlarmSignDetails":     true, // derived from AlarmSign on parse, not encoded (C08)
	"StatusSignDetails":    true, // derived from StatusSign on parse, not encoded (C08)
	"ParamParseBeforeFunc": true, // callback
}

func c07Idx(i int) string {
	if i < 4 {
		return fmt.Sprintf("[%d]", i)
	}
	return "[n]"
}

// c07Diff compares exported fields; nil and empty slices/maps are the same
// value. It returns the path of the first difference.
func c07Diff(want, got reflect.Value, path string) (string, string) {
	switch want.Kind() {
	case reflect.Ptr, reflect.Interface:
		if want.IsNil() || got.IsNil() {
			if want.IsNil() != got.IsNil() {
				return path, fmt.Sprintf("want nil=%v, got nil=%v", want.IsNil(), got.IsNil())
			}
			return "", ""
		}
		if want.Kind() == reflect.Interface {
			if !reflect.DeepEqual(want.Interface(), got.Interface()) {
				return path, fmt.Sprintf("want %v, got %v", want.Interface(), got.Interface())
			}
			return "", ""
		}
		return c07Diff(want.Elem(), got.Elem(), path)
	case reflect.Struct:
		t := want.Type()
		for i := 0; i < t.NumField(); i++ {
			f := t.Field(i)
			if !f.IsExported() || c07SkipField[f.Name] {
				continue
			}
			p := f.Name
			if path != "" {
				p = path + "." + f.Name
			}
			if d, m := c07Diff(want.Field(i), got.Field(i), p); d != "" {
				return d, m
			}
		}
		return "", ""
	case reflect.Slice:
		if want.Len() == 0 && got.Len() == 0 {
			return "", ""
		}
		if want.Type().Elem().Kind() == reflect.Uint8 {
			if !bytes.Equal(want.Bytes(), got.Bytes()) {
				return path, fmt.Sprintf("want %s, got %s", hx(want.Bytes()), hx(got.Bytes()))
			}
			return "", ""
		}
		if want.Len() != got.Len() {
			return path + ".len", fmt.Sprintf("want %d elements, got %d", want.Len(), got.Len())
		}
		for i := 0; i < want.Len(); i++ {
			if d, m := c07Diff(want.Index(i), got.Index(i), path+c07Idx(i)); d != "" {
				return d, m
			}
		}
		return "", ""
	case reflect.Map:
		if want.Len() == 0 && got.Len() == 0 {
			return "", ""
		}
		keys := map[string]reflect.Value{}
		for _, k := range want.MapKeys() {
			keys[fmt.Sprintf("%#06x", k.Interface())] = k
		}
		for _, k := range got.MapKeys() {
			keys[fmt.Sprintf("%#06x", k.Interface())] = k
		}
		names := make([]string, 0, len(keys))
		for n := range keys {
			names = append(names, n)
		}
		sort.Strings(names)
		for _, n := range names {
			w, g := want.MapIndex(keys[n]), got.MapIndex(keys[n])
			p := path + "[" + n + "]"
			if !w.IsValid() {
				return p, "entry present after parsing that the value did not have"
			}
			if !g.IsValid() {
				return p, "entry of the value is missing after parsing"
			}
			if d, m := c07Diff(w, g, p); d != "" {
				return d, m
			}
		}
		return "", ""
	case reflect.Func, reflect.Chan:
		return "", ""
	default:
		if !reflect.DeepEqual(want.Interface(), got.Interface()) {
			return path, fmt.Sprintf("want %#v, got %#v", want.Interface(), got.Interface())
		}
		return "", ""
	}
}

// c07Shape: which lists of the value are empty - the stable class used in
// signatures of cases where no field can be named.
func c07Shape(sp *c07Spec, v c07Msg) string {
	if sp.shape != nil {
		return sp.shape(v)
	}
	rv := reflect.ValueOf(v).Elem()
	var parts []string
	for i := 0; i < rv.NumField(); i++ {
		f := rv.Type().Field(i)
		if f.IsExported() && rv.Field(i).Kind() == reflect.Slice && f.Type.Elem().Kind() != reflect.Uint8 {
			c := "empty"
			if rv.Field(i).Len() > 0 {
				c = "non-empty"
			}
			parts = append(parts, f.Name+"="+c)
		}
	}
	if len(parts) == 0 {
		return "-"
	}
	return strings.Join(parts, ",")
}

// ---------------------------------------------------------------- oracle

type c07Fail struct {
	sig  string
	diag func() string
}

var c07EmptyParam = regexp.MustCompile(`"t0X[0-9A-Za-z]+":\{"id":0,"len":0,"value":(0|""|\[[0,]*\])\},?`)

func c07JSON(v any) string {
	js, err := json.Marshal(v)
	if err != nil {
		return "(json: " + err.Error() + ")"
	}
	js = c07EmptyParam.ReplaceAll(js, nil) // absent terminal parameters are not shown
	if len(js) > 1500 {
		return string(js[:1500]) + "..."
	}
	return string(js)
}

func c07FirstDiff(a, b []byte) int {
	n := min(len(a), len(b))
	for i := 0; i < n; i++ {
		if a[i] != b[i] {
			return i
		}
	}
	return n
}

func c07Parse(sp *c07Spec, body []byte) (p c07Msg, err error, panicked string) {
	p = sp.blank()
	m := jt808.NewJTMessage()
	m.Header.ProtocolVersion = sp.ver
	m.Body = exact(body)
	panicked = vc.Catch(func() { err = p.Parse(m) })
	return
}

// c07Eval applies the oracles to one value in the order (3) Encode against
// the reference, (1) Parse(Encode(v)) against v, (2) re-encoding, and reports
// the first one that fails: a body that is not the standard's body is no fair
// input for the round trip, and a re-encoding of a wrongly parsed value
// differs as a matter of course. What Parse makes of the reference body is
// added to the diagnosis of (3). mk returns a fresh copy of the value on
// every call (the library's Encode may write into its receiver).
func c07Eval(sp *c07Spec, mk func() c07Msg) (fail *c07Fail, outcome string) {
	orig := mk()
	key := sp.key()
	head := func() string { return key + " value " + c07JSON(orig) }
	rb, refOK := c07Ref(sp, orig)
	var refBytes []byte
	if refOK {
		refBytes = rb.Bytes()
	}
	var enc1 []byte
	if sp.parseOnly {
		if !refOK {
			return nil, "skipped:no-reference"
		}
		enc1 = refBytes
	} else {
		work := mk()
		if p := vc.Catch(func() { enc1 = work.Encode() }); p != "" {
			return &c07Fail{"encode-panic:" + key + ":" + vc.PanicSite(p), func() string { return head() + ": Encode panicked: " + p }}, "fail"
		}
	}
	// (3) Encode(v) == refEncode(v)
	if refOK && !sp.parseOnly {
		a, b := enc1, refBytes
		if sp.typ == "P0x8103" && len(enc1) > 0 { // order of parameter items is not prescribed
			if sa, oka := ref.SortedParams07(enc1[1:]); oka {
				sb, _ := ref.SortedParams07(refBytes[1:])
				a, b = append([]byte{enc1[0]}, sa...), append([]byte{refBytes[0]}, sb...)
			}
		}
		if !bytes.Equal(a, b) {
			off := c07FirstDiff(a, b)
			field := rb.FieldAt(off)
			return &c07Fail{"encode-vs-ref:" + key + ":field=" + c07SigPath(field), func() string {
				hint := ""
				if p, err, pn := c07Parse(sp, refBytes); pn != "" {
					hint = "Parse(reference body) panics: " + pn
				} else if err != nil {
					hint = "Parse(reference body) fails: " + err.Error()
				} else if d, m := c07Diff(reflect.ValueOf(orig), reflect.ValueOf(p), ""); d != "" {
					hint = "Parse(reference body) differs from the value at " + d + " (" + m + ")"
				} else {
					hint = "Parse(reference body) yields the value"
				}
				return fmt.Sprintf("%s: Encode = %s, the standard's layout gives %s (first difference at offset %d, field %s); %s", head(), hx(enc1), hx(refBytes), off, field, hint)
			}}, "fail"
		}
	}
	// (1) Parse(Encode(v)) == v
	p, err, pn := c07Parse(sp, enc1)
	what := "its own encoding"
	if sp.parseOnly {
		what = "the reference body"
	}
	switch {
	case pn != "":
		return &c07Fail{"parse-panic:" + key + ":" + vc.PanicSite(pn),
			func() string { return fmt.Sprintf("%s: Parse of %s %s panicked: %s", head(), what, hx(enc1), pn) }}, "fail"
	case err != nil:
		return &c07Fail{"parse-rejects:" + key + ":" + c07Shape(sp, orig),
			func() string { return fmt.Sprintf("%s: Parse rejects %s %s: %v", head(), what, hx(enc1), err) }}, "fail"
	}
	if d, m := c07Diff(reflect.ValueOf(orig), reflect.ValueOf(p), ""); d != "" {
		return &c07Fail{"roundtrip:" + key + ":field=" + c07SigPath(d), func() string {
			return fmt.Sprintf("%s: Parse of %s %s yields %s: field %s: %s", head(), what, hx(enc1), c07JSON(p), d, m)
		}}, "fail"
	}
	// (1b) the same on ONE receiver per type that has parsed every earlier value of this run (the per-connection handler
	// object): what it held before must not show in the result
	if sp.reused == nil {
		sp.reused = sp.blank()
	}
	{
		m := jt808.NewJTMessage()
		m.Header.ProtocolVersion = sp.ver
		m.Body = exact(enc1)
		var rerr error
		if pn := vc.Catch(func() { rerr = sp.reused.Parse(m) }); pn != "" || rerr != nil {
			sp.reused = nil // start over with a fresh one; the failure itself is oracle (1)'s business on a fresh receiver
		} else if d, mm := c07Diff(reflect.ValueOf(orig), reflect.ValueOf(sp.reused), ""); d != "" {
			got := c07JSON(sp.reused)
			sp.reused = nil
			return &c07Fail{"roundtrip-reused-receiver:" + key + ":field=" + c07SigPath(d), func() string {
				return fmt.Sprintf("%s: a receiver that parsed earlier values yields %s for %s %s: field %s: %s (a fresh receiver yields the value)", head(), got, what, hx(enc1), d, mm)
			}}, "fail"
		}
	}
	// (2) Encode(Parse(Encode(v))) == Encode(v)
	if !sp.parseOnly {
		var enc2 []byte
		if pn := vc.Catch(func() { enc2 = p.Encode() }); pn != "" {
			return &c07Fail{"reencode-panic:" + key + ":" + vc.PanicSite(pn), func() string { return head() + ": Encode of the parsed value panicked: " + pn }}, "fail"
		}
		if !bytes.Equal(enc1, enc2) {
			field := "?"
			if refOK {
				field = rb.FieldAt(c07FirstDiff(enc1, enc2))
			}
			return &c07Fail{"reencode:" + key + ":field=" + c07SigPath(field),
				func() string {
					return fmt.Sprintf("%s: Encode = %s but Encode(Parse(Encode)) = %s", head(), hx(enc1), hx(enc2))
				}}, "fail"
		}
	}
	if !refOK {
		return nil, "ok:roundtrip-only(no reference for this dialect)"
	}
	if sp.parseOnly {
		return nil, "ok:parse-of-reference"
	}
	return nil, "ok:roundtrip+reference"
}

var c07IdxRe = regexp.MustCompile(`\[([1-9]|n)\]`)

// c07SigPath: in signatures every list index above 0 is the same class.
func c07SigPath(p string) string { return c07IdxRe.ReplaceAllString(p, "[k>0]") }

// ---------------------------------------------------------------- replay case

type c07Case struct {
	Type  string          `json:"type"` // spec key
	Value json.RawMessage `json:"value"`
}

func c07Replay(raw json.RawMessage) string {
	var c c07Case
	if err := json.Unmarshal(raw, &c); err != nil {
		return "bad case: " + err.Error()
	}
	for _, sp := range c07Specs() {
		if sp.key() != c.Type {
			continue
		}
		mk := func() c07Msg {
			v := sp.blank()
			_ = json.Unmarshal(c.Value, v)
			return v
		}
		if f, _ := c07Eval(sp, mk); f != nil {
			return "[" + f.sig + "] " + f.diag()
		}
		return ""
	}
	return "unknown type " + c.Type
}

// ---------------------------------------------------------------- helpers

func c07IsBCD(b byte) bool { return b>>4 <= 9 && b&15 <= 9 }

// BCD number (phone): Bcd2Dec gives the digits without leading zeros and
// Time2BCD (the library's digits->BCD routine) gives the bytes back.
func c07HelpPhone(b []byte) (sig, diag string) {
	digits := ""
	for _, x := range b {
		digits += string([]byte{'0' + x>>4, '0' + x&15})
	}
	want := strings.TrimLeft(digits, "0")
	var s string
	var back []byte
	if p := vc.Catch(func() { s = utils.Bcd2Dec(exact(b)) }); p != "" {
		return "helper:Bcd2Dec:panic", "Bcd2Dec(" + hx(b) + ") panicked: " + p
	}
	if want == "" {
		if strings.Trim(s, "0") != "" || s == "" { // number 0: any run of zeros
			return "helper:Bcd2Dec:zero", fmt.Sprintf("Bcd2Dec(%s) = %q, want zeros", hx(b), s)
		}
	} else if s != want {
		return "helper:Bcd2Dec:digits", fmt.Sprintf("Bcd2Dec(%s) = %q, want %q", hx(b), s, want)
	}
	if p := vc.Catch(func() { back = utils.Time2BCD(s) }); p != "" {
		return "helper:Time2BCD:panic", fmt.Sprintf("Time2BCD(%q) panicked: %s", s, p)
	}
	if len(back) < len(b) {
		back = append(make([]byte, len(b)-len(back)), back...)
	}
	if !bytes.Equal(back, b) {
		return "helper:Bcd2Dec-Time2BCD:roundtrip", fmt.Sprintf("Bcd2Dec(%s) = %q, Time2BCD of that = %s", hx(b), s, hx(back))
	}
	return "", ""
}

// BCD time: BCD2Time/Time2BCD.
func c07HelpTime(b []byte) (sig, diag string) {
	var s string
	var back []byte
	if p := vc.Catch(func() { s = utils.BCD2Time(exact(b)) }); p != "" {
		return "helper:BCD2Time:panic", "BCD2Time(" + hx(b) + ") panicked: " + p
	}
	if len(b) == 6 {
		if want := ref.TimeString07(b); s != want {
			return "helper:BCD2Time:text", fmt.Sprintf("BCD2Time(%s) = %q, want %q", hx(b), s, want)
		}
	} else {
		want := ""
		for _, x := range b {
			want += string([]byte{'0' + x>>4, '0' + x&15})
		}
		if s != want {
			return "helper:BCD2Time:digits", fmt.Sprintf("BCD2Time(%s) = %q, want %q", hx(b), s, want)
		}
	}
	if p := vc.Catch(func() { back = utils.Time2BCD(s) }); p != "" {
		return "helper:Time2BCD:panic", fmt.Sprintf("Time2BCD(%q) panicked: %s", s, p)
	}
	if !bytes.Equal(back, b) {
		return fmt.Sprintf("helper:BCD2Time-Time2BCD:roundtrip:len=%d", min(len(b), 7)), fmt.Sprintf("BCD2Time(%s) = %q, Time2BCD of that = %s", hx(b), s, hx(back))
	}
	return "", ""
}

func c07GBKRegion(g []byte) string {
	l, t := g[0], g[1]
	switch {
	case l >= 0xA1 && l <= 0xA9 && t >= 0xA1:
		return "GBK1(symbols)"
	case l >= 0xB0 && l <= 0xF7 && t >= 0xA1:
		return "GBK2(GB2312-hanzi)"
	case l >= 0x81 && l <= 0xA0:
		return "GBK3(hanzi)"
	case l >= 0xAA && t <= 0xA0:
		return "GBK4(hanzi)"
	case l >= 0xA8 && l <= 0xA9 && t <= 0xA0:
		return "GBK5(symbols)"
	}
	return "user-defined"
}

// GBK: one code point (or one ASCII byte); undefined=true when the decoder
// has no character for it.
func c07HelpGBK(g []byte) (sig, diag string, undefined bool) {
	var u, back, u2 []byte
	if p := vc.Catch(func() { u = utils.GBK2UTF8(exact(g)) }); p != "" {
		return "helper:GBK2UTF8:panic", "GBK2UTF8(" + hx(g) + ") panicked: " + p, false
	}
	if bytes.ContainsRune(u, utf8.RuneError) {
		return "", "", true
	}
	if len(g) == 1 {
		if !bytes.Equal(u, g) {
			return "helper:GBK2UTF8:ascii", fmt.Sprintf("GBK2UTF8(%s) = %s", hx(g), hx(u)), false
		}
	} else if !utf8.Valid(u) || utf8.RuneCount(u) != 1 {
		return "helper:GBK2UTF8:not-one-character:" + c07GBKRegion(g), fmt.Sprintf("GBK2UTF8(%s) = %s, not one character", hx(g), hx(u)), false
	}
	if p := vc.Catch(func() { back = utils.UTF82GBK(exact(u)) }); p != "" {
		return "helper:UTF82GBK:panic", "UTF82GBK(" + hx(u) + ") panicked: " + p, false
	}
	region := "ascii"
	if len(g) == 2 {
		region = c07GBKRegion(g)
	}
	if !bytes.Equal(back, g) {
		r, _ := utf8.DecodeRune(u)
		return "helper:gbk-roundtrip:" + region, fmt.Sprintf("GBK2UTF8(%s) = U+%04X, UTF82GBK of that = %s", hx(g), r, hx(back)), false
	}
	_ = vc.Catch(func() { u2 = utils.GBK2UTF8(exact(back)) })
	if !bytes.Equal(u2, u) {
		return "helper:utf8-roundtrip:" + region, fmt.Sprintf("UTF82GBK(%s) = %s, GBK2UTF8 of that = %s", hx(u), hx(back), hx(u2)), false
	}
	return "", "", false
}

// GBK anchors: texts whose GBK bytes are known independently.
func c07HelpGBKText(s string) (sig, diag string) {
	want, ok := ref.GBK07(s)
	if !ok {
		return "", ""
	}
	var got, back []byte
	if p := vc.Catch(func() { got = utils.UTF82GBK([]byte(s)); back = utils.GBK2UTF8(exact(want)) }); p != "" {
		return "helper:gbk-text:panic", p
	}
	if !bytes.Equal(got, want) {
		return "helper:gbk-text:encode", fmt.Sprintf("UTF82GBK(%q) = %s, GBK is %s", s, hx(got), hx(want))
	}
	if string(back) != s {
		return "helper:gbk-text:decode", fmt.Sprintf("GBK2UTF8(%s) = %q, want %q", hx(want), back, s)
	}
	return "", ""
}

// String2FillingBytes: text of l bytes into a field of size bytes (l <= size):
// exactly size bytes, the text, then 0x00; stripping the padding gives the text.
func c07HelpFill(l, size int) (sig, diag string) {
	text := c07Pattern[:l]
	var out []byte
	if p := vc.Catch(func() { out = utils.String2FillingBytes(text, size) }); p != "" {
		return "helper:String2FillingBytes:panic", fmt.Sprintf("String2FillingBytes(%d bytes, %d) panicked: %s", l, size, p)
	}
	want := make([]byte, size)
	copy(want, text)
	if !bytes.Equal(out, want) {
		return "helper:String2FillingBytes:bytes", fmt.Sprintf("String2FillingBytes(%q, %d) = %s, want %s", text, size, hx(out), hx(want))
	}
	if string(bytes.TrimRight(out, "\x00")) != text {
		return "helper:String2FillingBytes:roundtrip", fmt.Sprintf("String2FillingBytes(%q, %d) = %s does not strip back to the text", text, size, hx(out))
	}
	return "", ""
}

type c07HCase struct {
	Helper string `json:"helper"` // phone | time | gbk | gbk-text | fill
	Hex    string `json:"hex,omitempty"`
	Text   string `json:"text,omitempty"`
	Len    int    `json:"len,omitempty"`
	Size   int    `json:"size,omitempty"`
}

func c07HEval(c c07HCase) (sig, diag string, undefined bool) {
	switch c.Helper {
	case "phone":
		sig, diag = c07HelpPhone(unhx(c.Hex))
	case "time":
		sig, diag = c07HelpTime(unhx(c.Hex))
	case "gbk":
		return c07HelpGBK(unhx(c.Hex))
	case "gbk-text":
		sig, diag = c07HelpGBKText(c.Text)
	case "fill":
		sig, diag = c07HelpFill(c.Len, c.Size)
	}
	return sig, diag, false
}

// ---------------------------------------------------------------- run

func init() {
	vc.Register(&vc.Check{
		ID:    "C07",
		Level: "exploration",
		Rule: "per two-way message type (0001 0002 0100 0102 0200-base 0704 0800 0801 0805 1003 1005 1205 1206 1210 1211 8001 8003 8100 8103 8104 8800 8801 9003 9101 9102 9105 9201 9202 9205 9206 9207 9208 9212) a deterministic generator over menus: " +
			"BYTE/WORD/DWORD/64-bit fields {0,1,7D,7E,max-1,max | asymmetric patterns 1234, 7E7D, 12345678, 7D7E0102 ..}; BYTE[n] texts {\"\",\"a\",full width,full width-1}; " +
			"length-prefixed STRINGs {\"\",\"a\",\"127.0.0.1\",255 bytes | 254,125,126 bytes}; STRING-to-end {\"\",\"a\",12 digits | 200 bytes} (ASCII: the library passes these fields through as bytes, so their text encoding is outside the round trip; GBK text is generated for the fields the library transcodes: the 0x0100 plate and the string parameters); plate {\"\",\"a\",GBK plate,17-char VIN | one GBK character, 200 bytes}; " +
			"BCD times {all 0, all 9, ordinary | every digit 1..9 at each of the 12 digit positions}; reserved bytes {00.., 01 02.., FF..} at the dialect's length (the part after | is the menu tail). " +
			"Length and count fields are derived from their lists/strings (string parameter lengths in GBK bytes); list lengths 0..3 (thorough 0..4; 0x0704 from 1 as the standard demands; 0x8003/0x8800/0x0805 also 255) with elements rotating through the menus under a variant dimension so that neighbours differ " +
			"(0x1210 item names: ordinary names in rotation; the empty name as last item under the JS dialect only); " +
			"0x0100 under 2011/2013/2019, 0x0102 under 2013/2019 (version in the header passed to Parse; IMEI 15 digits | shorter), 0x1210 and 0x9208 under the five dialects; " +
			"0x8103: {every parameter ID of the standard's table, reserved/vendor IDs 0,8,2A,2B,75..7C,F000,F364,F365,FFFF,10001,FFFFFFFF | every other ID up to 0x1FF} x {small, largest/GBK text, zero/empty (not for ID 0, where ID 0 + length 0 is the library's representation of an absent parameter) | 7D7E pattern/255 bytes} x every second parameter x its 3 values, and one parameter together with all other standard parameters and within a 255-item list. " +
			"Enumeration: full product of the menu heads when <= 10^6 per type/variant plus a single sweep over every menu tail, otherwise base + every single-field sweep over the whole menu + all pairs of non-base head values; thorough adds all pairs involving tail values and, for the types enumerated by pairs, all triples of head values. " +
			"Oracles per value, first failure reported: (3) Encode == reference encoder written from the JT/T 808-2011/2013/2019, JT/T 1078-2016, Su-biao and Yue-biao tables (parameter items compared as a set; no reference for the alarm identification of the HLJ, HN and SC dialects, whose reserved-byte counts I do not know for certain: round trip only, widths as the repository documents them); " +
			"(1) Parse(Encode) deep-equals the value on exported fields (AlarmSignDetails/StatusSignDetails are derived on parse and belong to C08; nil = empty); (2) Encode(Parse(Encode)) byte-identical. 0x0104 has a stub Encode (returns nil): Parse(reference body) == value only. " +
			"Failing cases are shrunk dimension by dimension towards the base value before they are reported. Helpers: Bcd2Dec/Time2BCD on every decimal BCD byte at every position and all position pairs (6 and 10 bytes), BCD2Time/Time2BCD likewise (6 bytes; 1..10 bytes single positions), " +
			"GBK2UTF8/UTF82GBK on every GBK code point 81..FE x 40..FE\\7F the decoder defines and every ASCII byte (round trip only: no independent GBK table beyond 8 anchor characters), String2FillingBytes for all len <= size <= 40 (len > size cannot round-trip and is not generated). " +
			"Non-trivial = list with >= 2 elements, BYTE[n] text at full width, STRING of 255 bytes, GBK plate/parameter text, or at least two fields off their base value; helpers: two positions off zero / two-byte code point / len > 0",
		Assumptions: []string{
			"reference encoders harness/checks/c07_ref.go + harness/ref/bodies07.go read the standards' field tables as quoted in the model files' comments",
			"the plate of 0x0100 and string parameters are GBK on the wire (the fields the library transcodes); every other STRING field is generated in ASCII, where GBK and UTF-8 coincide",
			"0x8800 without retransmission list is the 4-byte form (JT/T 808-2013 table 78 note)",
			"0x0200 is checked on the 28-byte base block only (its Encode writes no additional information)",
		},
		Run: c07Run,
		Drivers: map[string]func(json.RawMessage) string{
			"c07": c07Replay,
			"c07h": func(raw json.RawMessage) string {
				var c c07HCase
				_ = json.Unmarshal(raw, &c)
				_, d, _ := c07HEval(c)
				return d
			},
		},
	})
}

func c07Run(ctx *vc.Ctx, rep *vc.Report) {
	var idx int64
	stop := func() bool {
		if ctx.Expired() {
			rep.Truncated = true
			rep.Caps = append(rep.Caps, "deadline")
			return true
		}
		if rep.TooMany() {
			rep.Caps = append(rep.Caps, "stopped after 40 distinct findings in one worker: later types not enumerated")
			return true
		}
		return false
	}
	helpersDone := false
	for _, sp := range c07Specs() {
		if sp.parseOnly && !helpersDone { // the parse-only type comes last
			helpersDone = true
			c07RunHelpers(ctx, rep, &idx)
			if stop() {
				return
			}
		}
		g := &c07Pick{record: true, thorough: ctx.Thorough()}
		sp.build(g)
		sp.dims = g.dims
		key := sp.key()
		var cases, skipped int64
		mode := c07Enumerate(sp, ctx.Thorough(), func(ch []int) bool {
			idx++
			if idx%4096 == 0 && stop() {
				return false
			}
			if !ctx.Mine(idx) {
				return true
			}
			if sp.make(ch, ctx.Thorough()) == nil {
				skipped++
				return true
			}
			cases++
			mk := func() c07Msg { return sp.make(ch, ctx.Thorough()) }
			f, outcome := c07Eval(sp, mk)
			rep.Evaluations++
			if sp.nontrivial(ch) {
				rep.Nontrivial++
			}
			rep.Outcome(outcome)
			if idx%200003 == 0 {
				rep.Sample(map[string]any{"type": key, "value": c07JSON(mk())})
			}
			if f != nil && !rep.Seen(f.sig) {
				small := c07Shrink(sp, ch, f.sig, ctx.Thorough())
				mk2 := func() c07Msg { return sp.make(small, ctx.Thorough()) }
				diag := f.diag()
				if x, _ := c07Eval(sp, mk2); x != nil && x.sig == f.sig {
					diag = x.diag()
				}
				js, _ := json.Marshal(mk2())
				rep.Add(f.sig, diag, "c07", c07Case{Type: key, Value: js})
			}
			return true
		})
		rep.Count("cases:"+key+":"+mode, cases) // summed over the workers
		if skipped > 0 {
			rep.Count("combinations-not-generated(duplicate list, filler with a pair, ID 0 with length 0):"+key, skipped)
		}
		if stop() {
			return
		}
	}
	if !helpersDone {
		c07RunHelpers(ctx, rep, &idx)
	}
}

// c07Shrink moves every dimension towards its base value as long as the
// signature stays.
func c07Shrink(sp *c07Spec, ch []int, sig string, thorough bool) []int {
	cur := append([]int(nil), ch...)
	has := func(c []int) bool {
		if sp.make(c, thorough) == nil {
			return false
		}
		f, _ := c07Eval(sp, func() c07Msg { return sp.make(c, thorough) })
		return f != nil && f.sig == sig
	}
	for changed := true; changed; {
		changed = false
		for i := range cur {
			for v := 0; v < cur[i]; v++ {
				old := cur[i]
				cur[i] = v
				if has(cur) {
					changed = true
					break
				}
				cur[i] = old
			}
		}
	}
	return cur
}

func c07RunHelpers(ctx *vc.Ctx, rep *vc.Report, idx *int64) {
	try := func(c c07HCase, nontrivial bool) {
		*idx++
		if !ctx.Mine(*idx) {
			return
		}
		sig, diag, undef := c07HEval(c)
		rep.Evaluations++
		if undef {
			rep.Outcome("helper:" + c.Helper + ":undefined-code-point(skipped)")
			return
		}
		if nontrivial {
			rep.Nontrivial++
		}
		if sig != "" {
			rep.Outcome("fail:" + c.Helper)
			rep.Count("helper-failures:"+sig, 1)
			if c.Helper == "gbk" && rep.Counters["helper-failures:"+sig] <= 12 {
				rep.Notes = append(rep.Notes, "gbk code point that does not round-trip: "+diag)
			}
			rep.Add(sig, diag, "c07h", c)
			return
		}
		rep.Outcome("ok:helper:" + c.Helper)
	}
	var bcd []byte
	for v := 0; v < 256; v++ {
		if c07IsBCD(byte(v)) {
			bcd = append(bcd, byte(v))
		}
	}
	for _, helper := range []string{"phone", "time"} {
		widths := []int{6, 10}
		if helper == "time" {
			widths = []int{6}
		}
		for _, w := range widths {
			b := make([]byte, w)
			try(c07HCase{Helper: helper, Hex: hx2(b)}, false)
			for i := 0; i < w; i++ {
				for _, x := range bcd[1:] {
					b[i] = x
					try(c07HCase{Helper: helper, Hex: hx2(b)}, false)
				}
				b[i] = 0
			}
			for i := 0; i < w; i++ {
				for j := i + 1; j < w; j++ {
					for _, x := range bcd[1:] {
						for _, y := range bcd[1:] {
							b[i], b[j] = x, y
							try(c07HCase{Helper: helper, Hex: hx2(b)}, true)
						}
					}
					b[i], b[j] = 0, 0
				}
				if ctx.Expired() {
					rep.Truncated = true
					return
				}
			}
		}
	}
	for w := 1; w <= 10; w++ { // BCD2Time on other lengths (plain digits)
		if w == 6 {
			continue
		}
		b := make([]byte, w)
		for i := 0; i < w; i++ {
			for _, x := range bcd {
				b[i] = x
				try(c07HCase{Helper: "time", Hex: hx2(b)}, false)
			}
			b[i] = 0
		}
	}
	for v := 0; v < 0x80; v++ {
		try(c07HCase{Helper: "gbk", Hex: hx2([]byte{byte(v)})}, false)
	}
	for l := 0x81; l <= 0xFE; l++ {
		for t := 0x40; t <= 0xFE; t++ {
			if t == 0x7F {
				continue
			}
			try(c07HCase{Helper: "gbk", Hex: hx2([]byte{byte(l), byte(t)})}, true)
		}
	}
	for _, s := range []string{"测", "试", "京", "中", "文", "粤", "上", "传", "京A12345", "测试/上传", "€", "a€b", "€A12345"} {
		try(c07HCase{Helper: "gbk-text", Text: s}, true)
	}
	for size := 0; size <= 40; size++ {
		for l := 0; l <= 40; l++ {
			if l > size {
				if ctx.Worker == 0 {
					rep.Count("helper-fill-text-longer-than-field(out of domain)", 1)
				}
				continue
			}
			try(c07HCase{Helper: "fill", Len: l, Size: size}, l > 0)
		}
	}
}
