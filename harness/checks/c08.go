package checks

import (
	"bytes"
	"encoding/json"
	"fmt"
	"reflect"
	"strings"
	"sync"
	"unsafe"

	"github.com/cuteLittleDevil/go-jt808/protocol/jt808"
	"github.com/cuteLittleDevil/go-jt808/protocol/model"
	"github.com/cuteLittleDevil/go-jt808/shared/consts"
	"verif/harness/ref"
	"verif/harness/vc"
)

// C08 - location reports are decoded as the standard prescribes (E2).
//
// This file holds the oracle: a carrier body is read by the reference
// (harness/ref/location08.go), parsed by the library, and every value the
// property claims is compared. c08_enum.go holds the enumeration.

// c08Case is the replay input: one carrier body.
type c08Case struct {
	Carrier string `json:"carrier"` // 0200 | 0704 | 0801
	Body    string `json:"body_hex"`
}

// c08Miss is one observed difference.
type c08Miss struct{ sig, msg string }

// c08Flag links one row of a bit table to the library's bool field.
type c08Flag struct {
	bit  int
	name string
	off  uintptr // offset of the bool inside the details struct
	note string
}

type c08Tables struct {
	alarm, status []c08Flag
	broken        []string // table rows whose Go field does not exist
	paths         map[string][]int
	pathsMu       sync.Mutex
}

var (
	c08tabOnce sync.Once
	c08tab     *c08Tables
)

func c08T() *c08Tables {
	c08tabOnce.Do(func() {
		t := &c08Tables{paths: map[string][]int{}}
		res := func(kind string, typ reflect.Type, rows []ref.BitEntry) []c08Flag {
			var out []c08Flag
			seen := map[string]int{}
			for _, r := range rows {
				f, ok := typ.FieldByName(r.Field)
				if !ok || f.Type.Kind() != reflect.Bool {
					t.broken = append(t.broken, fmt.Sprintf("%s bit %d (%s): no bool field %s in %s", kind, r.Bit, r.Meaning, r.Field, typ.Name()))
					continue
				}
				if b, dup := seen[r.Field]; dup {
					t.broken = append(t.broken, fmt.Sprintf("%s: field %s used for bits %d and %d", kind, r.Field, b, r.Bit))
					continue
				}
				seen[r.Field] = r.Bit
				out = append(out, c08Flag{bit: r.Bit, name: r.Field, off: f.Offset, note: r.Meaning})
			}
			return out
		}
		t.alarm = res("alarm", reflect.TypeOf(model.AlarmSignDetails{}), ref.AlarmBits)
		t.status = res("status", reflect.TypeOf(model.StatusSignDetails{}), ref.StatusBits)
		c08tab = t
	})
	return c08tab
}

func c08FlagAt(base unsafe.Pointer, off uintptr) bool { return *(*bool)(unsafe.Add(base, off)) }

// c08CmpFlags compares every single-bit flag of one details struct.
func c08CmpFlags(kind string, base unsafe.Pointer, flags []c08Flag, word uint32, out *[]c08Miss) {
	for i := range flags {
		f := &flags[i]
		want := word>>uint(f.bit)&1 == 1
		got := c08FlagAt(base, f.off)
		if got != want {
			how := "missed"
			if got {
				how = "spurious"
			}
			*out = append(*out, c08Miss{
				fmt.Sprintf("flag:%s:bit=%d:field=%s:%s", kind, f.bit, f.name, how),
				fmt.Sprintf("%s word %08x: bit %d (%s) is %v but flag %s = %v", kind, word, f.bit, f.note, want, f.name, got)})
		}
	}
}

// c08CmpBase compares table 23.
func c08CmpBase(got *model.T0x0200LocationItem, want ref.LocBase, out *[]c08Miss) {
	sc := func(name string, g, w uint64, at string) {
		if g != w {
			*out = append(*out, c08Miss{"base:field=" + name, fmt.Sprintf("%s = %d (%#x), the standard's big-endian reading of %s is %d (%#x)", name, g, g, at, w, w)})
		}
	}
	sc("AlarmSign", uint64(got.AlarmSign), uint64(want.Alarm), "bytes 0..3")
	sc("StatusSign", uint64(got.StatusSign), uint64(want.Status), "bytes 4..7")
	sc("Latitude", uint64(got.Latitude), uint64(want.Latitude), "bytes 8..11")
	sc("Longitude", uint64(got.Longitude), uint64(want.Longitude), "bytes 12..15")
	sc("Altitude", uint64(got.Altitude), uint64(want.Altitude), "bytes 16..17")
	sc("Speed", uint64(got.Speed), uint64(want.Speed), "bytes 18..19")
	sc("Direction", uint64(got.Direction), uint64(want.Direction), "bytes 20..21")
	if want.TimeIsBCD() && got.DateTime != want.TimeString() {
		*out = append(*out, c08Miss{"base:field=DateTime", fmt.Sprintf("DateTime = %q, BCD reading of bytes 22..27 (%x) is %q", got.DateTime, want.Time[:], want.TimeString())})
	}
	t := c08T()
	c08CmpFlags("alarm", unsafe.Pointer(&got.AlarmSignDetails), t.alarm, want.Alarm, out)
	c08CmpFlags("status", unsafe.Pointer(&got.StatusSignDetails), t.status, want.Status, out)
}

// c08Path resolves a dotted field path inside model.AdditionContent.
func c08Path(v reflect.Value, path string) (reflect.Value, bool) {
	t := c08T()
	t.pathsMu.Lock()
	idx, ok := t.paths[path]
	if !ok {
		typ := v.Type()
		for _, p := range strings.Split(path, ".") {
			if typ.Kind() != reflect.Struct {
				idx = nil
				break
			}
			f, found := typ.FieldByName(p)
			if !found {
				idx = nil
				break
			}
			idx = append(idx, f.Index...)
			typ = f.Type
		}
		t.paths[path] = idx
	}
	t.pathsMu.Unlock()
	if len(idx) == 0 {
		return reflect.Value{}, false
	}
	return v.FieldByIndex(idx), true
}

func c08Num(v reflect.Value) (int64, bool) {
	switch v.Kind() {
	case reflect.Bool:
		if v.Bool() {
			return 1, true
		}
		return 0, true
	case reflect.Uint8, reflect.Uint16, reflect.Uint32, reflect.Uint64, reflect.Uint:
		return int64(v.Uint()), true
	case reflect.Int8, reflect.Int16, reflect.Int32, reflect.Int64, reflect.Int:
		return v.Int(), true
	}
	return 0, false
}

// c08CmpOne compares one exposed entry with one occurrence of its item.
func c08CmpOne(e model.Addition, it ref.LocItem) (miss []c08Miss, unclaimed bool) {
	tag := fmt.Sprintf("item:0x%02X:len=%d", it.ID, len(it.Content))
	if ref.ItemSpecOf(it.ID) == nil {
		utag := fmt.Sprintf("unknown:0x%02X", it.ID)
		if e.ID != it.ID {
			miss = append(miss, c08Miss{utag + ":field=ID", fmt.Sprintf("unknown item %02X len %d: preserved ID = %#x", it.ID, len(it.Content), e.ID)})
		}
		if int(e.Len) != len(it.Content) {
			miss = append(miss, c08Miss{utag + ":field=Len", fmt.Sprintf("unknown item %02X len %d: preserved Len = %d", it.ID, len(it.Content), e.Len)})
		}
		if !bytes.Equal(e.Content.Data, it.Content) {
			miss = append(miss, c08Miss{utag + ":field=Data", fmt.Sprintf("unknown item %02X content %x: preserved Data = %x", it.ID, it.Content, e.Content.Data)})
		}
		return miss, false
	}
	rd := ref.ReadLocItem(it)
	cv := reflect.ValueOf(e.Content)
	for _, f := range rd.Fields {
		fv, ok := c08Path(cv, f.Path)
		if !ok {
			miss = append(miss, c08Miss{"table:item-field-missing:" + f.Path, "model.AdditionContent has no field " + f.Path})
			continue
		}
		g, ok := c08Num(fv)
		if !ok {
			miss = append(miss, c08Miss{"table:item-field-kind:" + f.Path, "model.AdditionContent." + f.Path + " is not numeric/bool"})
			continue
		}
		if g != f.Value {
			what := "value"
			if f.IsFlag {
				what = fmt.Sprintf("bit %d (%s)", f.Bit, f.Note)
			}
			miss = append(miss, c08Miss{tag + ":field=" + f.Path,
				fmt.Sprintf("item %02X content %x: %s = %d (%#x), the standard's %s is %d (%#x)", it.ID, it.Content, f.Path, g, g, what, f.Value, f.Value)})
		}
	}
	if rd.Tyres != nil {
		vals := e.Content.TirePressure.Values
		for k, v := range rd.Tyres {
			if vals[uint8(k)] != v {
				miss = append(miss, c08Miss{tag + ":field=TirePressure.Values",
					fmt.Sprintf("item 05 content %x: tyre %d reads %d, the standard's byte is %d", it.Content, k, vals[uint8(k)], v)})
				break
			}
		}
		for k := range vals {
			if int(k) >= len(rd.Tyres) {
				miss = append(miss, c08Miss{tag + ":field=TirePressure.Values:extra", fmt.Sprintf("item 05: tyre index %d does not exist", k)})
				break
			}
		}
	}
	return miss, rd.Unclaimed != ""
}

// c08CmpItems compares the additions map with the reference item list.
// Duplicates of one ID: the map can expose one occurrence only; the entry must
// be a faithful reading of one of them (which one is not claimed).
func c08CmpItems(add *model.T0x0200AdditionDetails, items []ref.LocItem, out *[]c08Miss) (unclaimed, dups int) {
	byID := map[byte][]ref.LocItem{}
	var order []byte
	for _, it := range items {
		if _, ok := byID[it.ID]; !ok {
			order = append(order, it.ID)
		}
		byID[it.ID] = append(byID[it.ID], it)
	}
	for _, id := range order {
		occ := byID[id]
		if len(occ) > 1 {
			dups++
		}
		e, ok := add.Additions[consts.JT808LocationAdditionType(id)]
		if !ok {
			kind := "item"
			if ref.ItemSpecOf(id) == nil {
				kind = "unknown"
			}
			*out = append(*out, c08Miss{fmt.Sprintf("%s:0x%02X:missing", kind, id), fmt.Sprintf("item %02X (len %d) is not in Additions", id, len(occ[len(occ)-1].Content))})
			continue
		}
		var last []c08Miss
		matched := false
		for i := len(occ) - 1; i >= 0; i-- {
			m, u := c08CmpOne(e, occ[i])
			if len(m) == 0 {
				matched = true
				if u {
					unclaimed++
				}
				break
			}
			if last == nil {
				last = m
			}
		}
		if !matched {
			*out = append(*out, last...)
		}
	}
	if len(add.Additions) > len(order) {
		for k := range add.Additions {
			if _, ok := byID[byte(k)]; !ok {
				*out = append(*out, c08Miss{"item:spurious", fmt.Sprintf("Additions holds ID %#x which is not in the body", uint8(k))})
				break
			}
		}
	}
	return
}

// c08Parsed is what the library produced for one carrier body.
type c08Parsed struct {
	panicked string
	err      error
	bases    []*model.T0x0200LocationItem
	adds     []*model.T0x0200AdditionDetails
	extra    []c08Miss // carrier-level differences
}

func c08Msg(body []byte) *jt808.JTMessage {
	m := jt808.NewJTMessage()
	m.Header.ProtocolVersion = consts.JT808Protocol2013
	m.Body = exact(body)
	return m
}

// c08Result is the verdict on one carrier body.
type c08Result struct {
	misses []c08Miss
	class  string
	scope  bool // inside the property
}

// c08Eval reads body with the reference, parses it with the library and
// compares.
func c08Eval(carrier string, body []byte) c08Result {
	var locs []ref.Loc
	var p c08Parsed
	switch carrier {
	case "0200":
		l, err := ref.SplitLoc(body)
		if err != nil {
			return c08Result{class: "out-of-scope:" + err.Error()}
		}
		locs = []ref.Loc{l}
		t := &model.T0x0200{}
		m := c08Msg(body)
		p.panicked = vc.Catch(func() { p.err = t.Parse(m) })
		p.bases = []*model.T0x0200LocationItem{&t.T0x0200LocationItem}
		p.adds = []*model.T0x0200AdditionDetails{&t.T0x0200AdditionDetails}
	case "0704":
		b, err := ref.Split0704(body)
		if err != nil {
			return c08Result{class: "out-of-scope:" + err.Error()}
		}
		locs = b.Locs
		t := &model.T0x0704{}
		m := c08Msg(body)
		p.panicked = vc.Catch(func() { p.err = t.Parse(m) })
		if p.panicked == "" && p.err == nil {
			if len(t.Items) != b.Count {
				p.extra = append(p.extra, c08Miss{"carrier=0704:item-count", fmt.Sprintf("batch of %d locations decoded into %d items", b.Count, len(t.Items))})
			}
			for i := range t.Items {
				p.bases = append(p.bases, &t.Items[i].T0x0200LocationItem)
				p.adds = append(p.adds, &t.Items[i].T0x0200AdditionDetails)
			}
		}
	case "0801":
		md, err := ref.Split0801(body)
		if err != nil {
			return c08Result{class: "out-of-scope:" + err.Error()}
		}
		locs = []ref.Loc{md.Loc}
		t := &model.T0x0801{}
		m := c08Msg(body)
		p.panicked = vc.Catch(func() { p.err = t.Parse(m) })
		p.bases = []*model.T0x0200LocationItem{&t.T0x0200LocationItem}
		p.adds = []*model.T0x0200AdditionDetails{nil}
	default:
		return c08Result{class: "out-of-scope:carrier"}
	}
	return c08Judge(carrier, locs, &p)
}

func c08ItemList(locs []ref.Loc) string {
	var s []string
	for _, l := range locs {
		for _, it := range l.Items {
			s = append(s, fmt.Sprintf("%02X/%d", it.ID, len(it.Content)))
		}
	}
	return strings.Join(s, ",")
}

// c08Alone parses one item alone (zero base block, 0x0200) and tells what the
// library does with it: "panic", "error" or "ok".
func c08Alone(it ref.LocItem) (string, string) {
	body := append(make([]byte, ref.LocBaseLen), it.Bytes()...)
	t := &model.T0x0200{}
	m := c08Msg(body)
	var err error
	if p := vc.Catch(func() { err = t.Parse(m) }); p != "" {
		return "panic", p
	}
	if err != nil {
		return "error", err.Error()
	}
	return "ok", ""
}

func c08Judge(carrier string, locs []ref.Loc, p *c08Parsed) c08Result {
	res := c08Result{scope: true}
	var bad *ref.LocItem
	nitems := 0
	for li := range locs {
		for ii := range locs[li].Items {
			nitems++
			it := &locs[li].Items[ii]
			if bad == nil && !ref.ItemLenOK(it.ID, len(it.Content)) {
				bad = it
			}
		}
	}
	if p.panicked != "" {
		// a panic is an observation (C03's subject); name the item that panics
		// alone, if any
		sig := ""
		for _, l := range locs {
			for _, it := range l.Items {
				if how, _ := c08Alone(it); how == "panic" {
					sig = fmt.Sprintf("panic:item=0x%02X:len=%d:%s", it.ID, len(it.Content), vc.PanicSite(p.panicked))
					if it.ID == 0x11 && len(it.Content) == 1 {
						sig += ":type!=0"
					}
					break
				}
			}
			if sig != "" {
				break
			}
		}
		if sig == "" {
			sig = fmt.Sprintf("panic:carrier=%s:%s:%s", carrier, vc.PanicSite(p.panicked), vc.PanicClass(p.panicked))
		}
		res.misses = append(res.misses, c08Miss{sig, fmt.Sprintf("Parse panicked: %s (items %s)", p.panicked, c08ItemList(locs))})
		res.class = "panic"
		return res
	}
	if bad != nil {
		if p.err == nil {
			res.misses = append(res.misses, c08Miss{fmt.Sprintf("accepts-bad-length:item=0x%02X:len=%d", bad.ID, len(bad.Content)),
				fmt.Sprintf("item %02X with length %d (standard: %v) accepted, Parse returned nil (items %s)", bad.ID, len(bad.Content), ref.ItemSpecOf(bad.ID).Lens, c08ItemList(locs))})
			res.class = "bad-length:accepted"
			return res
		}
		res.class = "bad-length:rejected-as-required"
		return res
	}
	if p.err != nil {
		sig := ""
		for _, l := range locs {
			for _, it := range l.Items {
				if how, _ := c08Alone(it); how == "error" {
					sig = fmt.Sprintf("rejects-valid:item=0x%02X:len=%d", it.ID, len(it.Content))
					break
				}
			}
			if sig != "" {
				break
			}
		}
		if sig == "" {
			sig = fmt.Sprintf("rejects-valid:carrier=%s:items=%s", carrier, c08ItemList(locs))
		}
		res.misses = append(res.misses, c08Miss{sig, fmt.Sprintf("well-formed body with admissible items (%s) rejected: %v", c08ItemList(locs), p.err)})
		res.class = "valid:rejected"
		return res
	}
	res.misses = append(res.misses, p.extra...)
	unclaimed, dups := 0, 0
	for i, l := range locs {
		if i >= len(p.bases) {
			break
		}
		var ms []c08Miss
		c08CmpBase(p.bases[i], l.Base, &ms)
		if l.HasItems && p.adds[i] != nil {
			u, d := c08CmpItems(p.adds[i], l.Items, &ms)
			unclaimed += u
			dups += d
		}
		if len(locs) > 1 {
			for k := range ms {
				ms[k].msg = fmt.Sprintf("location %d of %d: %s", i+1, len(locs), ms[k].msg)
			}
		}
		res.misses = append(res.misses, ms...)
		if !l.Base.TimeIsBCD() {
			unclaimed++
		}
	}
	switch {
	case len(res.misses) > 0:
		res.class = "mismatch"
	case unclaimed > 0:
		res.class = "accepted:equal(partly-unclaimed)"
	case dups > 0:
		res.class = "accepted:equal(duplicate-id:one-occurrence-exposed)"
	case nitems > 0:
		res.class = "accepted:equal:with-items"
	default:
		res.class = "accepted:equal:base-only"
	}
	return res
}

func c08Diag(carrier string, body []byte, r c08Result) string {
	if len(r.misses) == 0 {
		return ""
	}
	var b strings.Builder
	fmt.Fprintf(&b, "0x%s body %s\n", carrier, hx(body))
	seen := map[string]bool{}
	for _, m := range r.misses {
		if !seen[m.sig] {
			seen[m.sig] = true
			fmt.Fprintf(&b, "[%s] %s\n", m.sig, m.msg)
		}
	}
	return strings.TrimRight(b.String(), "\n")
}

func init() {
	vc.Register(&vc.Check{
		ID:    "C08",
		Level: "exploration",
		Rule: "base block (table 23): alarm word {0, all ones, 32 single bits, 496 pairs} x status {0, all ones}; status word likewise; all 32x32 (alarm bit, status bit) pairs; " +
			"latitude/longitude x altitude/speed/direction full product of {0,1,7D,7E,max-1,max,0102(0304)}; BCD time: every digit 0..9 at each of the 12 positions on two baselines and every pair of positions x 100 digit pairs (non-decimal nibbles are parsed for panics only); " +
			"every word with <=3 (thorough <=4) bits set or cleared and every value of each 16-bit half (other half 0000/FFFF), for the alarm and for the status word with the other word 0 and all ones, through all three carriers; " +
			"thorough: one pass over w = 0..2^32-1 with alarm = w, status = w*0x9E3779B1 mod 2^32 (odd multiplier = bijection, so ALL 2^32 alarm words and ALL 2^32 status words) through 0x0200. " +
			"Items: every standard ID x every length 0..max+2 (05: 0..2, 28..32) x contents {zeros, FF, counter, high bit, low bit}; field menus for 11/12/13 (type all 256 x ID menu), all 2^16 IO words, 25: singles, pairs, all 2^16 low halves x high {0,FFFF}, 05: each wheel position; unknown IDs 07 14 E0 FF x lengths 0..3 and 255; " +
			"ALL sequences of 1..3 (thorough 4) items from a menu of one valid item per admissible length and two invalid lengths per standard ID plus three unknown items (content depends on the position so duplicates differ). " +
			"Every case through 0x0200, through 0x0704 batches ([X], [F,X], [X,F], [F,X,G]; all batches of 1..3 from a 9-location menu) and (base blocks) through bytes 8..35 of 0x0801 with header/package variants. " +
			"Non-trivial = inside the claimed part of the property: values were compared after acceptance or a rejection was demanded (cases with non-BCD nibbles or a table-28 length that contradicts its type byte are trivial)",
		Assumptions: []string{
			"reference reader harness/ref/location08.go written from JT/T 808-2013/2019 tables 23-25, 27-32; bit -> Go field by the field's documented meaning",
			"status bits 8-9 (two-bit load field) and reserved bits are not claimed",
			"duplicate IDs: the additions map exposes one occurrence; it must be a faithful reading of one of them, which one is not claimed",
			"item 0x11: only the lengths 1 and 5 are admissible; length 1 with type != 0 or length 5 with type 0 is neither required to be rejected nor compared beyond the type byte",
			"time: only bytes whose nibbles are decimal have a BCD reading; calendar validity is not claimed",
			"item 0x06: the standard's value is signed (sign and magnitude, 最高位为1表示负数); a positive reading of a word with the top bit set is reported",
		},
		Run: c08Run,
		Drivers: map[string]func(json.RawMessage) string{"c08": func(raw json.RawMessage) string {
			var c c08Case
			_ = json.Unmarshal(raw, &c)
			body := unhx(c.Body)
			return c08Diag(c.Carrier, body, c08Eval(c.Carrier, body))
		}},
	})
}
