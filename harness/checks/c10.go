package checks

import (
	"bytes"
	"encoding/json"
	"errors"
	"fmt"
	"os"
	"strings"
	"time"

	"github.com/cuteLittleDevil/go-jt808/attachment"
	"github.com/cuteLittleDevil/go-jt808/service"
	"github.com/cuteLittleDevil/go-jt808/shared/consts"
	"verif/harness/ref"
	"verif/harness/vc"
	"verif/harness/vnet"
	"verif/harness/vos"
	"verif/harness/vs"
)

// C10 - hostile input is contained to its own connection (both servers).

type hostScn struct {
	Name    string   `json:"name"`
	Pieces  []string `json:"pieces"`   // hex chunks sent by the hostile client, one per read
	CloseAt int      `json:"close_at"` // close after this many chunks (0 = before any byte); -1 = never
	Reset   bool     `json:"reset,omitempty"`
	SameKey bool     `json:"same_key,omitempty"` // hostile client presents the victim's phone
	// FailWrites: once the hostile client is gone, the server's writes to it may fail (an explorer choice)
	FailWrites bool `json:"fail_writes,omitempty"`
	// CmdToHostile: the platform sends a command to the hostile client's own key as soon as that client has been
	// announced as joined; the client disconnects without waiting (the command races its teardown). Any result is
	// fine, the call must return and the server must go on
	CmdToHostile bool `json:"command_to_hostile_key,omitempty"`
}

// hostileJoined: the hostile client's connection has been announced as joined (or refused).
type hostileJoined struct{ r *hostRun }

//go:norace
func (v hostileJoined) Ready() bool {
	if v.r.hostile == nil {
		return false
	}
	for _, e := range v.r.w.ev {
		if e.Kind == "join" && e.Conn == v.r.hostile.C.Index {
			return true
		}
	}
	return false
}

const (
	victimPhone  = "13800138000"
	hostilePhone = "13911139111"
)

type hostRun struct {
	scn     hostScn
	w       *world
	victim  *vnet.Peer
	hostile *vnet.Peer
	third   *vnet.Peer
	vSent   [][]byte
}

//go:norace
func (r *hostRun) set(which string, p *vnet.Peer) {
	switch which {
	case "v":
		r.victim = p
	case "h":
		r.hostile = p
	case "t":
		r.third = p
	}
}

//go:norace
func (r *hostRun) sent(b []byte) { r.vSent = append(r.vSent, b) }

// victimJoined: the victim's connection has been announced as joined (or refused).
type victimJoined struct{ r *hostRun }

//go:norace
func (v victimJoined) Ready() bool {
	if v.r.victim == nil {
		return false
	}
	for _, e := range v.r.w.ev {
		if e.Kind == "join" && e.Conn == v.r.victim.C.Index {
			return true
		}
	}
	return false
}

func hostMake(scn hostScn) func() (func(), any) {
	return func() (func(), any) {
		vnet.Reset()
		r := &hostRun{scn: scn}
		body := func() {
			r.w = startWorld(worldOpts{parse: true})
			hDone := vs.NewChan[struct{}]("hdone")
			// V: a well-behaved session that must be served whatever H does
			vs.GoNamed("victim", false, func() {
				p := r.w.dial()
				r.set("v", p)
				msgs := []tmsg{{ID: 0x0100, Phone: victimPhone, Serial: 1}, {ID: 0x0102, Phone: victimPhone, Serial: 2},
					{ID: 0x0002, Phone: victimPhone, Serial: 3}, {ID: 0x0200, Phone: victimPhone, Serial: 4}}
				for i, m := range msgs {
					f := m.frame()
					r.sent(f)
					p.Send(f)
					p.Expect(i + 1)
					if p.C.Closed() {
						return
					}
				}
			})
			// H: the hostile client
			vs.GoNamed("hostile", false, func() {
				defer hDone.Close()
				p := r.w.dial()
				r.set("h", p)
				p.C.FailWrites = scn.FailWrites
				end := func() {
					if scn.Reset {
						p.Reset()
					} else {
						p.Close()
					}
				}
				for i, pc := range scn.Pieces {
					if scn.CloseAt == i {
						end()
						return
					}
					p.Send(unhx(pc))
				}
				if !scn.FailWrites {
					p.Drained()
				}
				if scn.CloseAt >= len(scn.Pieces) {
					end()
				}
			})
			// the platform can still reach the victim after H is done (V does not answer commands: a timeout is fine)
			cr := r.w.newCall("caller", ref.PhoneString(ref.BCD(victimPhone, 6)), 0x8104)
			vs.GoNamed("caller", false, func() {
				hDone.Recv()
				vs.Block(&vs.Op{Kind: "hwait-victim", W: victimJoined{r}})
				cr.begin()
				m := r.w.srv.SendActiveMessage(service.NewActiveMessage(cr.Key, consts.P8104QueryTerminalParams, nil, 50*time.Millisecond))
				var sn snap
				if m != nil {
					sn = takeSnap(m)
				}
				cr.end(m, sn)
			})
			if scn.CmdToHostile {
				ch := r.w.newCall("caller-h", ref.PhoneString(ref.BCD(hostilePhone, 6)), 0x8104)
				vs.GoNamed("caller-h", false, func() {
					vs.Block(&vs.Op{Kind: "hwait-hostile", W: hostileJoined{r}})
					ch.begin()
					m := r.w.srv.SendActiveMessage(service.NewActiveMessage(ch.Key, consts.P8104QueryTerminalParams, nil, 50*time.Millisecond))
					var sn snap
					if m != nil {
						sn = takeSnap(m)
					}
					ch.end(m, sn)
				})
			}
			// T: a new connection opened after H is done must be accepted and served
			vs.GoNamed("third", false, func() {
				hDone.Recv()
				p := r.w.dial()
				r.set("t", p)
				p.Send(hbFrame(true, "13700137000", 1))
				p.Expect(1)
			})
		}
		return body, r
	}
}

func hostCheck(res *vs.Result, user any) []vs.Violation {
	r := user.(*hostRun)
	allow := func(b vs.Blocked) bool { return serverIdle(b) || b.Thread == "hostile" }
	out := baseViolations(res, allow)
	if len(out) > 0 {
		return out
	}
	add := func(sig, msg string) { out = append(out, vs.Violation{Sig: sig, Msg: msg}) }
	if r.victim == nil || r.third == nil {
		add("harness", "victim/third connection not established")
		return out
	}
	// was the victim itself accepted? (with SameKey the hostile client may have taken the key first)
	victimOwns := false
	for _, e := range r.w.ev {
		if e.Kind == "join" && e.Conn == r.victim.C.Index && e.Err == nil {
			victimOwns = true
		}
	}
	for _, c := range r.w.calls {
		if c.Name == "caller-h" && (!c.Done || c.Reply == nil) {
			add("hostile-command-stranded", "a platform command for the hostile client's key, issued while that client was disconnecting, never returned")
		}
	}
	if victimOwns && !r.victim.C.Closed() {
		for _, c := range r.w.calls {
			if c.Name != "caller" {
				continue
			}
			if !c.Done || c.Reply == nil {
				add("victim-command-stranded", "a platform command for the well-behaved terminal never returned")
				continue
			}
			if errors.Is(c.Reply.ExtensionFields.Err, service.ErrNotExistKey) {
				add("victim-session-lost", fmt.Sprintf("after the hostile client was done, a platform command for the well-behaved (still connected) terminal %s returned %v", c.Key, c.Reply.ExtensionFields.Err))
				continue
			}
			onVictim := false
			for _, o := range r.victim.C.Out {
				if f, err := ref.Decode(o.Data); err == nil && f.ID == 0x8104 {
					onVictim = true
				}
			}
			if !onVictim {
				add("victim-command-misrouted", "the platform command for the well-behaved terminal did not arrive on its socket")
			}
		}
	}
	// an established session is served by ITS OWN handler instances: the handler map and the event callbacks are created
	// per connection in the same accept step, so the handler that sees a message and the eventer that reports it carry
	// the same connection number unless another connection's handlers took the session over
	type mk struct {
		phone      string
		id, serial uint16
	}
	evConn := map[mk]int{}
	for _, e := range r.w.ev {
		if e.Kind == "tread" {
			evConn[mk{e.Snap.Phone, e.Snap.ID, e.Snap.Serial}] = e.Conn
		}
	}
	for _, e := range r.w.ev {
		if e.Kind == "hread" {
			if c, ok := evConn[mk{e.Snap.Phone, e.Snap.ID, e.Snap.Serial}]; ok && c != e.Conn {
				add("handler-of-another-connection", fmt.Sprintf("message %04x #%d of %s arrived on connection %d but was handled by the handler instance created for connection %d: a later client took over an established session's handlers", e.Snap.ID, e.Snap.Serial, e.Snap.Phone, c, e.Conn))
				break
			}
		}
	}
	if r.scn.SameKey {
		// H races V for the same key: whoever joins first owns it; the other is refused. Only crash containment
		// and the third client are checked (the registry itself is C11's subject).
	} else {
		var got [][]byte
		for _, g := range framesOf(r.victim.C.Out) {
			if f, err := ref.Decode(g); err != nil || f.ID != 0x8104 {
				got = append(got, g)
			}
		}
		if r.victim.C.Closed() {
			add("victim-closed", "the well-behaved connection was closed by the server")
		}
		if len(got) != len(r.vSent) {
			add("victim-replies", fmt.Sprintf("the well-behaved client sent %d requests and got %d replies", len(r.vSent), len(got)))
		} else {
			for i, g := range got {
				q, _ := ref.Decode(r.vSent[i])
				f, err := ref.Decode(g)
				w := ref.ExpectedReply(q)
				if err != nil || f.ID != w.ID || !bytes.Equal(f.PhoneBCD, q.PhoneBCD) || (!w.BodyFree && !w.BodyPrefix && !bytes.Equal(f.Body, w.Body)) {
					add("victim-reply-wrong", fmt.Sprintf("reply %d to the well-behaved client is %s, want type %04x body %s", i, hx(g), w.ID, hx(w.Body)))
				}
			}
		}
	}
	tg := framesOf(r.third.C.Out)
	if len(tg) != 1 || r.third.C.Closed() {
		add("new-connection-not-served", fmt.Sprintf("a connection opened after the hostile one got %d replies (closed=%v)", len(tg), r.third.C.Closed()))
	}
	return out
}

// hostPieces is the menu of hostile chunks.
func hostPieces(phone string) map[string]string {
	m := map[string]string{}
	fr := func(name string, h ref.Header, body []byte) { m[name] = hx2(ref.Encode(h, body)) }
	th := func(id uint16, v19 bool, ser uint16) ref.Header { return ref.TermHeader(id, v19, phone, ser) }
	frag := func(id uint16, total, no uint16, ser uint16) ref.Header {
		h := th(id, false, ser)
		h.Fragmented, h.Total, h.Number = true, total, no
		return h
	}
	fr("frag-no0", frag(0x0801, 3, 0, 1), []byte{1, 2, 3})
	fr("frag-first", frag(0x0801, 3, 1, 2), []byte{1, 2, 3})
	fr("frag-beyond-total", frag(0x0801, 3, 4, 3), []byte{1, 2, 3})
	fr("frag-total0", frag(0x0801, 0, 1, 4), []byte{1, 2, 3})
	fr("frag-total65535", frag(0x0704, 65535, 1, 5), []byte{1, 2, 3})
	fr("frag-unknown-id-no2", frag(0x0F0F, 2, 2, 6), []byte{9})
	// declared length != actual
	good := ref.EncodeRaw(th(0x0002, false, 7), nil)
	bad := append([]byte(nil), good[:len(good)-1]...)
	bad[3] = 5 // declares 5 body bytes, has none
	bad = append(bad, ref.Xor(bad))
	m["length-lies"] = hx2(ref.Escape(bad))
	badck := append([]byte(nil), good...)
	badck[len(badck)-1] ^= 0x55
	m["checksum-wrong"] = hx2(ref.Escape(badck))
	// every supported ID with adversarial bodies
	k := uint16(10)
	for _, id := range append(append([]uint16{}, ref.DefaultIDs...), 0x8003, 0x8001, 0x8100, 0x8103, 0x8104, 0x8801, 0x9003, 0x9101, 0x9102, 0x9205, 0x9206, 0x9207, 0x9208) {
		for _, v19 := range []bool{false, true} {
			k++
			v := "13"
			if v19 {
				v = "19"
			}
			fr(fmt.Sprintf("%04x/%s/empty", id, v), th(id, v19, k), nil)
			fr(fmt.Sprintf("%04x/%s/one-byte", id, v), th(id, v19, k), []byte{0xFF})
			sb := ref.SampleBody(id, v19, phone, 0)
			if len(sb) > 1 {
				fr(fmt.Sprintf("%04x/%s/truncated", id, v), th(id, v19, k), sb[:len(sb)-1])
				g := append([]byte(nil), sb...)
				g[0] = 0xFF
				fr(fmt.Sprintf("%04x/%s/first-ff", id, v), th(id, v19, k), g)
				fr(fmt.Sprintf("%04x/%s/extended", id, v), th(id, v19, k), append(append([]byte(nil), sb...), 0x31, 0x00))
				// count / length fields pushed to values where 16-bit arithmetic wraps while the low bits stay
				// consistent with the data present (count 0x4000+k with k entries, length 0x80+n with n bytes)
				for off := 0; off < len(sb) && off < 8; off++ {
					for _, hi := range []byte{0x40, 0x80} {
						if sb[off]&hi != 0 {
							continue
						}
						g := append([]byte(nil), sb...)
						g[off] |= hi
						fr(fmt.Sprintf("%04x/%s/byte%d|%02x", id, v, off, hi), th(id, v19, k), g)
					}
				}
			}
		}
	}
	// the boundary cases C03 found
	fr("0200/item-31-00", th(0x0200, false, 90), append(ref.Loc28(0, 0), 0x31, 0x00))
	fr("0200/item-11-type-no-id", th(0x0200, false, 91), append(ref.Loc28(0, 0), 0x11, 0x01, 0x01))
	fr("0704/count-exceeds", th(0x0704, false, 92), append([]byte{0x00, 0x02, 0x00, 0x00, 0x1C}, ref.Loc28(0, 0)...))
	b1210 := ref.SampleBody(0x1210, false, phone, 0)
	b1210[len(b1210)-11] = 2 // two attachments announced, one present whose name fills the body
	fr("1210/name-fills-body", th(0x1210, false, 93), b1210)
	v66 := append(ref.Loc28(0, 0), 0x66, 49)
	c66 := make([]byte, 49)
	c66[40] = 1
	fr("0200/vendor-66", th(0x0200, false, 94), append(v66, c66...))
	// a 2019 authentication whose code length byte makes uint8 index arithmetic wrap (needs a 256+ byte body)
	big := append([]byte{0xDC}, bytes.Repeat([]byte{0x41}, 300)...)
	fr("0102/19/authlen-220", th(0x0102, true, 98), big)
	// framing noise
	hb := hbFrame(false, phone, 95)
	m["half-frame"] = hx2(hb[:len(hb)/2])
	m["second-half"] = hx2(hb[len(hb)/2:])
	m["delim1"] = "7e"
	m["delim2"] = "7e7e"
	m["delim3"] = "7e7e7e"
	m["junk-2k"] = hx2(bytes.Repeat([]byte{0x41}, 2048))
	m["junk-then-frame"] = hx2(append([]byte{0x01, 0x02}, hb...))
	fr("unknown-id", th(0x0F01, false, 96), []byte{1})
	fr("valid-heartbeat", th(0x0002, false, 97), nil)
	return m
}

type hostCase struct {
	Scn     hostScn `json:"scenario"`
	Choices []int   `json:"choices"`
}

// ---- attachment server ----

type attCase struct {
	Dialect int      `json:"dialect"`
	Chunks  []string `json:"chunks"`
	Reset   bool     `json:"reset"`
	Default bool     `json:"default_file_handler"`
	// Coalesce: all chunks arrive in one read; FailFrom: the FailFrom-th reply write and every later one fail (0: never)
	Coalesce bool `json:"coalesce,omitempty"`
	FailFrom int  `json:"fail_from,omitempty"`
}

type nopFileEvent struct{ n int }

func (n *nopFileEvent) OnEvent(p *attachment.PackageProgress) { n.n++ }

// attRun plays one scripted session against attachment's connection.run.
func attRun(c attCase) (panicked string, replies [][]byte) {
	peer := vnet.NewConn()
	peer.C.FailFrom = c.FailFrom
	if c.Coalesce {
		var all []byte
		for _, ch := range c.Chunks {
			all = append(all, unhx(ch)...)
		}
		peer.Send(all)
	} else {
		for _, ch := range c.Chunks {
			peer.Send(unhx(ch))
		}
	}
	if c.Reset {
		peer.Reset()
	} else {
		peer.Close()
	}
	vos.Reset("/sandbox")
	vos.Virtual = true
	var fe attachment.FileEventer = &nopFileEvent{}
	panicked = vc.Catch(func() {
		if c.Default {
			fe = attachment.VerifNewFileEvent()
		}
		attachment.VerifRunConnection(peer.C, c03Dialects[c.Dialect], nil, fe)
	})
	return panicked, framesOf(peer.C.Out)
}

func attEval(c attCase) (sig, diag string) {
	p, _ := attRun(c)
	if p != "" {
		return "attachment:panic:" + vc.PanicSite(p) + ":" + vc.PanicClass(p), fmt.Sprintf("attachment connection goroutine panicked (process death): %s; script %v", p, c.Chunks)
	}
	// a well-formed session afterwards must still complete
	ok := attSession(c03Dialects[c.Dialect], "a.jpg", []byte("0123456789"), 4)
	pp, rep := attRun(attCase{Dialect: c.Dialect, Chunks: ok, Default: c.Default})
	if pp != "" || len(rep) != 3 {
		return "attachment:later-session", fmt.Sprintf("a well-formed session after the hostile one: panic=%q replies=%d (want 3)", pp, len(rep))
	}
	return "", ""
}

// attSessionFiles: one announcement of several files, then each file's 0x1211, chunks and 0x1212.
func attSessionFiles(d consts.ActiveSafetyType, names []string, data []byte, chunk int) []string {
	phone := "13800138000"
	var files []ref.AttFile
	for _, n := range names {
		files = append(files, ref.AttFile{Name: n, Size: uint32(len(data))})
	}
	out := []string{hx2(ref.Encode(ref.TermHeader(0x1210, false, phone, 1), ref.Body1210(int(d), "alarm-1", files)))}
	// the information frames of all files first (several control frames in a row), then the data, then the completions
	for i, n := range names {
		out = append(out, hx2(ref.Encode(ref.TermHeader(0x1211, false, phone, uint16(2+i)), ref.Body1211(n, 0, uint32(len(data))))))
	}
	for _, n := range names {
		for off := 0; off < len(data); off += chunk {
			end := min(off+chunk, len(data))
			out = append(out, hx2(ref.StreamChunk(int(d), n, uint32(off), data[off:end])))
		}
	}
	for i, n := range names {
		out = append(out, hx2(ref.Encode(ref.TermHeader(0x1212, false, phone, uint16(20+i)), ref.Body1211(n, 0, uint32(len(data))))))
	}
	return out
}

// attSession builds the chunks of a complete upload session of one file.
func attSession(d consts.ActiveSafetyType, name string, data []byte, chunk int) []string {
	phone := "13800138000"
	var out []string
	out = append(out, hx2(ref.Encode(ref.TermHeader(0x1210, false, phone, 1), ref.Body1210(int(d), "alarm-1", []ref.AttFile{{Name: name, Size: uint32(len(data))}}))))
	out = append(out, hx2(ref.Encode(ref.TermHeader(0x1211, false, phone, 2), ref.Body1211(name, 0, uint32(len(data))))))
	for off := 0; off < len(data); off += chunk {
		end := min(off+chunk, len(data))
		out = append(out, hx2(ref.StreamChunk(int(d), name, uint32(off), data[off:end])))
	}
	out = append(out, hx2(ref.Encode(ref.TermHeader(0x1212, false, phone, 3), ref.Body1211(name, 0, uint32(len(data))))))
	return out
}

func init() {
	vc.Register(&vc.Check{
		ID: "C10", Level: "model_checking", SingleProc: true,
		Rule: "JT808 server: a well-behaved session V (register, auth, heartbeat, location, each awaited), a hostile client H and a third client opened after H, on the real server with README-pattern handlers that Parse and render every body. H plays every single piece of a ~900-piece menu (valid frames with lying package fields, every supported terminal and platform ID x both versions with empty / 1-byte / truncated / corrupted / extended bodies, the boundary bodies C03 found, half frames, bare delimiters, 2 KiB without delimiter, unknown IDs) with close or reset before, between and after its chunks, under ALL schedules with <=1 deviation (thorough: then again with 2 deviations and close after the piece, as far as the time cap allows - counter pieces_completed_at_bound_2), every ordered pair from a 40-piece sub-menu under the run-to-block schedule (thorough: with 1 deviation), every ordered pair of sub-package frames of one message ID whose total/number fields disagree (totals and numbers from {1,2,5,65535} / {1,2,4,65535}) through the server, and EVERY sequence of 1..2 (one ID: 1..3; thorough: 1..3 for both) sub-package frames over 2 IDs x totals {0,1,2,3,5,65535} x numbers {0..6,65535} on the real reassembler, " +
			"plus H presenting V's key. Attachment server: connection.run on scripted connections: every prefix (EOF and reset at every chunk boundary, including connect-and-close) of well-formed sessions of all five dialects, control frames and chunk headers with adversarial names / offsets / lengths, a chunk header cut at every byte, sessions of 1 and 4 files whose k-th reply write (k=1..4) and all later ones fail, frames one per read and all in one read, default and custom file handler. Oracle: no panic anywhere, V receives exactly its reference replies, the later client is served. Non-trivial = H sends at least one chunk",
		Assumptions: []string{"memory exhaustion by an endless delimiter-free stream is a resource bound, not a reachable-state property, and is not claimed"},
		Run:         c10Run,
		Drivers: map[string]func(json.RawMessage) string{
			"fragseq": func(raw json.RawMessage) string {
				var c fragSeqCase
				_ = json.Unmarshal(raw, &c)
				_, d := fragSeqEval(c)
				return d
			},
			"host": func(raw json.RawMessage) string {
				var c hostCase
				if err := json.Unmarshal(raw, &c); err != nil {
					return err.Error()
				}
				x := &vs.Explorer{Name: c.Scn.Name, Make: hostMake(c.Scn), Check: hostCheck}
				res, user, _ := x.RunOnce(c.Choices, nil, false)
				s := ""
				for _, v := range hostCheck(res, user) {
					s += v.Sig + ": " + v.Msg + "\n"
				}
				return s
			},
			"att": func(raw json.RawMessage) string {
				var c attCase
				_ = json.Unmarshal(raw, &c)
				_, d := attEval(c)
				return d
			},
		},
	})
}

func c10Run(ctx *vc.Ctx, rep *vc.Report) {
	pieces := hostPieces(hostilePhone)
	names := sortedKeys(pieces)
	bound1 := 1 // every family runs at this bound first; the thorough tier then repeats the single pieces at bound 2 (last: it is the part that may hit the time cap)
	var idx int64
	runHost := func(scn hostScn, bound int) {
		if only := os.Getenv("VERIF_ONLY"); only != "" && !strings.Contains(scn.Name, only) {
			return // debugging aid
		}
		idx++
		if !ctx.Mine(idx) {
			return
		}
		x := &vs.Explorer{Name: scn.Name, Bound: bound, Make: hostMake(scn), Check: hostCheck, KeepKeys: bound > 0, Deadline: ctx.Deadline}
		x.Explore()
		mergeStats(rep, x, bound, "host", func(f vs.Found) any { return hostCase{scn, f.Choices} })
		if len(scn.Pieces) > 0 && scn.CloseAt != 0 {
			// mergeStats counts deviation-bearing executions; a default-schedule run with hostile bytes is non-trivial too
			rep.Nontrivial += x.Stats.ByCost[0]
		}
		if idx%97 == 0 {
			rep.Sample(map[string]any{"hostile_script": scn})
		}
	}
	// attachment server and fragment sequences first (cheap, always completed)
	c10Attachment(ctx, rep, &idx)
	c10FragSeqs(ctx, rep, &idx)
	// connect-and-close / reset without a byte
	for _, reset := range []bool{false, true} {
		runHost(hostScn{Name: "host:connect-close", CloseAt: 0, Reset: reset}, bound1)
	}
	// every single piece x close points x schedules
	for _, n := range names {
		if ctx.Expired() || rep.TooMany() {
			rep.Truncated = rep.Truncated || ctx.Expired()
			return
		}
		for _, closeAt := range []int{-1, 1} {
			for _, reset := range []bool{false, true} {
				if closeAt == -1 && reset {
					continue
				}
				runHost(hostScn{Name: "host:1:" + n, Pieces: []string{pieces[n]}, CloseAt: closeAt, Reset: reset}, bound1)
			}
		}
	}
	// hostile client with the victim's key
	vp := hostPieces(victimPhone)
	for _, n := range []string{"valid-heartbeat", "frag-no0", "0200/13/empty", "0100/13/truncated", "length-lies"} {
		runHost(hostScn{Name: "host:samekey:" + n, Pieces: []string{vp[n]}, CloseAt: 1, SameKey: true}, bound1)
	}
	// a platform command for the hostile client's own key races its disconnect
	for _, n := range []string{"valid-heartbeat", "0200/13/empty"} {
		for _, reset := range []bool{false, true} {
			runHost(hostScn{Name: "host:cmd:" + n, Pieces: []string{pieces[n]}, CloseAt: 1, Reset: reset, CmdToHostile: true}, 2)
		}
	}
	// ordered pairs from a sub-menu
	var sub []string
	for _, n := range names {
		if strings.Contains(n, "/19/") || strings.HasSuffix(n, "/extended") || strings.HasSuffix(n, "/first-ff") {
			continue
		}
		if strings.Contains(n, "/13/") && !strings.HasSuffix(n, "/truncated") {
			continue
		}
		sub = append(sub, n)
	}
	pairBound := 0
	if ctx.Thorough() {
		pairBound = 1
	}
	for _, a := range sub {
		for _, b := range sub {
			if ctx.Expired() || rep.TooMany() {
				rep.Truncated = rep.Truncated || ctx.Expired()
				return
			}
			runHost(hostScn{Name: "host:2:" + a + "+" + b, Pieces: []string{pieces[a], pieces[b]}, CloseAt: 2}, pairBound)
		}
	}
	// package fields that disagree between the frames of one "transfer": every ordered pair over total x number, through the server
	fx := fragxPieces(hostilePhone, []uint16{1, 2, 5, 65535}, []uint16{1, 2, 4, 65535})
	fxNames := sortedKeys(fx)
	for _, a := range fxNames {
		for _, b := range fxNames {
			if ctx.Expired() || rep.TooMany() {
				rep.Truncated = rep.Truncated || ctx.Expired()
				return
			}
			runHost(hostScn{Name: "host:fragx:" + a + "+" + b, Pieces: []string{fx[a], fx[b]}, CloseAt: 2}, pairBound)
		}
	}
	if ctx.Worker == 0 {
		rep.Count("hostile_pieces", int64(len(names)))
		rep.Count("pair_menu", int64(len(sub)))
	}
	if ctx.Thorough() {
		// every single piece again with 2 deviations; a time cap here leaves everything above fully covered
		for _, n := range names {
			if ctx.Expired() || rep.TooMany() {
				rep.Truncated = rep.Truncated || ctx.Expired()
				break
			}
			runHost(hostScn{Name: "host:1:" + n, Pieces: []string{pieces[n]}, CloseAt: 1}, 2)
			if ctx.Worker == 0 {
				rep.Count("pieces_completed_at_bound_2", 1)
			}
		}
		if rep.Truncated {
			rep.Bound = 1 // the bound completed for the WHOLE menu; bound 2 only for the counted prefix of it
		}
	}
}

// fragxPieces: sub-package frames of message 0x0801 for every (total, number) of the given menus.
func fragxPieces(phone string, totals, numbers []uint16) map[string]string {
	m := map[string]string{}
	for _, t := range totals {
		for _, n := range numbers {
			h := ref.TermHeader(0x0801, false, phone, 40+t%7*8+n%8)
			h.Fragmented, h.Total, h.Number = true, t, n
			m[fmt.Sprintf("t%d-n%d", t, n)] = hx2(ref.Encode(h, []byte{byte(t), byte(n), 0x7E}))
		}
	}
	return m
}

type fragSeqCase struct {
	Frames []string `json:"frames_hex"`
}

func fragSeqEval(c fragSeqCase) (sig, diag string) {
	ps := service.VerifNewParser()
	for i, f := range c.Frames {
		if p := vc.Catch(func() { _, _ = ps.Parse(exact(unhx(f))) }); p != "" {
			return "reassembler-panic:" + vc.PanicSite(p) + ":" + vc.PanicClass(p),
				fmt.Sprintf("frame %d of %v makes the connection's reader panic (no recover: the server process dies): %s", i, c.Frames, p)
		}
	}
	return "", ""
}

func c10FragSeqs(ctx *vc.Ctx, rep *vc.Report, idx *int64) {
	var alpha []string
	for _, id := range []uint16{0x0801, 0x0704} {
		for _, t := range []uint16{0, 1, 2, 3, 5, 65535} {
			for _, n := range []uint16{0, 1, 2, 3, 4, 5, 6, 65535} {
				h := ref.TermHeader(id, false, hostilePhone, t*8+n)
				h.Fragmented, h.Total, h.Number = true, t, n
				alpha = append(alpha, hx2(ref.Encode(h, []byte{byte(t), byte(n)})))
			}
		}
	}
	depth := 2
	if ctx.Thorough() {
		depth = 3
	}
	// depth 3 in the quick tier on the alphabet of one message ID (the second ID adds nothing to a single transfer)
	one := alpha[:len(alpha)/2]
	try := func(fs ...string) {
		*idx++
		if !ctx.Mine(*idx) {
			return
		}
		c := fragSeqCase{Frames: fs}
		sig, diag := fragSeqEval(c)
		rep.Evaluations++
		rep.Nontrivial++
		rep.Transitions += int64(len(fs))
		if sig != "" {
			rep.Outcome("fail:" + sig)
			rep.Add(sig, diag, "fragseq", c)
		} else {
			rep.Outcome("fragseq-ok")
		}
	}
	for _, a := range alpha {
		try(a)
		for _, b := range alpha {
			try(a, b)
			if depth >= 3 {
				for _, c := range alpha {
					try(a, b, c)
				}
			}
		}
	}
	if depth < 3 {
		for _, a := range one {
			for _, b := range one {
				for _, c := range one {
					try(a, b, c)
				}
			}
		}
	}
	if ctx.Worker == 0 {
		rep.Count("fragment_alphabet", int64(len(alpha)))
	}
}

func c10Attachment(ctx *vc.Ctx, rep *vc.Report, idx *int64) {
	try := func(c attCase) {
		*idx++
		if !ctx.Mine(*idx) {
			return
		}
		done := vc.SetCurrent("att", c, fmt.Sprintf("attachment session dialect %d, %d chunks, coalesce=%v failFrom=%d", c.Dialect, len(c.Chunks), c.Coalesce, c.FailFrom))
		sig, diag := attEval(c)
		done()
		rep.Evaluations++
		rep.States++ // one scripted session = one path through the connection state machine
		rep.Transitions += int64(len(c.Chunks) + 1)
		if len(c.Chunks) > 0 {
			rep.Nontrivial++
		}
		if sig != "" {
			rep.Outcome("fail:" + sig)
			rep.Add(sig, diag, "att", c)
		} else {
			rep.Outcome("att-ok")
		}
	}
	for di := range c03Dialects {
		good := attSession(c03Dialects[di], "a.jpg", []byte("0123456789abcdef"), 5)
		for _, def := range []bool{false, true} {
			for _, reset := range []bool{false, true} {
				// every prefix: EOF / reset at every chunk boundary, including connect-and-close
				for cut := 0; cut <= len(good); cut++ {
					try(attCase{Dialect: di, Chunks: good[:cut], Reset: reset, Default: def})
				}
				// every prefix with the next chunk cut in half (disconnect mid-frame / mid-chunk)
				for cut := 0; cut < len(good); cut++ {
					h := good[cut]
					half := h[:len(h)/4*2]
					try(attCase{Dialect: di, Chunks: append(append([]string(nil), good[:cut]...), half), Reset: reset, Default: def})
				}
			}
			// a chunk header cut at EVERY byte (the peer writes part of a header, pauses and hangs up)
			for pos, h := range good {
				if !strings.HasPrefix(h, "30316364") {
					continue
				}
				raw := unhx(h)
				for cut := 1; cut < len(raw) && cut <= 80; cut++ {
					for _, reset := range []bool{false, true} {
						try(attCase{Dialect: di, Chunks: append(append([]string(nil), good[:pos]...), hx2(raw[:cut])), Reset: reset, Default: def})
					}
				}
				break
			}
			// the peer stops reading: the k-th reply write and every later one fail, frames one per read and all in one read
			// (several control frames buffered behind the failing write), sessions with 1 and with 4 files
			multi := attSessionFiles(c03Dialects[di], []string{"a.jpg", "b.bin", "c.jpg", "d.bin"}, []byte("0123456789"), 5)
			for _, sess := range [][]string{good, multi} {
				for k := 1; k <= 4; k++ {
					for _, co := range []bool{false, true} {
						try(attCase{Dialect: di, Chunks: sess, Default: def, Coalesce: co, FailFrom: k})
						try(attCase{Dialect: di, Chunks: sess[:len(sess)/2+1], Default: def, Coalesce: co, FailFrom: k})
					}
				}
			}
			// adversarial control frames and chunk headers after a valid announcement
			for _, adv := range attAdversarial(di) {
				for _, pos := range []int{0, 1, 2} {
					sc := append(append([]string(nil), good[:pos]...), adv)
					try(attCase{Dialect: di, Chunks: sc, Default: def})
					try(attCase{Dialect: di, Chunks: append(sc, good[pos:]...), Default: def})
				}
			}
		}
	}
}

// attAdversarial: control frames and chunk headers with hostile fields.
func attAdversarial(di int) []string {
	d := int(c03Dialects[di])
	phone := "13800138000"
	var out []string
	names := []string{"", "a.jpg", "../x", "/abs", strings.Repeat("n", 50), "01cd", "zz"}
	for _, n := range names {
		for _, off := range []uint32{0, 1, 0x7FFFFFFF, 0xFFFFFFFF} {
			for _, data := range [][]byte{nil, []byte("xy")} {
				out = append(out, hx2(ref.StreamChunk(d, n, off, data)))
			}
		}
		// header that announces more data than follows / a huge length
		c := ref.StreamChunk(d, n, 0, []byte("abcd"))
		out = append(out, hx2(c[:len(c)-2]))
		big := ref.StreamChunkLen(d, n, 0, 0xFFFFFFFF, []byte("ab"))
		out = append(out, hx2(big))
		out = append(out, hx2(ref.Encode(ref.TermHeader(0x1211, false, phone, 9), ref.Body1211(n, 0, 10))))
		out = append(out, hx2(ref.Encode(ref.TermHeader(0x1212, false, phone, 9), ref.Body1211(n, 0, 10))))
		out = append(out, hx2(ref.Encode(ref.TermHeader(0x1210, false, phone, 9), ref.Body1210(d, n, []ref.AttFile{{Name: n, Size: 3}, {Name: "b", Size: 0}}))))
	}
	// truncated / empty control bodies, unknown command, bare delimiters, marker only
	for _, id := range []uint16{0x1210, 0x1211, 0x1212, 0x0002, 0x0200} {
		out = append(out, hx2(ref.Encode(ref.TermHeader(id, false, phone, 9), nil)), hx2(ref.Encode(ref.TermHeader(id, false, phone, 9), []byte{0xFF})))
	}
	b := ref.Body1210(d, "x", []ref.AttFile{{Name: "a.jpg", Size: 3}})
	b[len(b)-10] = 9 // count lies
	out = append(out, hx2(ref.Encode(ref.TermHeader(0x1210, false, phone, 9), b)))
	out = append(out, "7e", "7e7e", "30316364", "3031636400", hx2(bytes.Repeat([]byte{0x30, 0x31, 0x63, 0x64}, 20)))
	return out
}
