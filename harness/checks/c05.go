package checks

import (
	"bytes"
	"encoding/json"
	"fmt"
	"sort"
	"strings"

	"github.com/cuteLittleDevil/go-jt808/service"
	"verif/harness/ref"
	"verif/harness/vc"
	"verif/harness/vnet"
	"verif/harness/vs"
	"verif/harness/vtime"
)

// C05 - sub-package reassembly delivers exactly the original message.
// C14 - missing sub-packages are re-requested exactly, stale transfers expire.
//
// Both are explicit-state searches over the REAL transition function
// (service.packageParse.parse through the VerifParser accessor, virtual
// clock): a state is the event history that reaches it, a successor is a fresh
// extractor replaying the history plus one event, canonical keys come from a
// dump of the real object; a reference reassembler predicts every delivery
// and every re-request. Representative histories are replayed through the
// real connection on a virtual socket.

// ---- events ----

type rEvent struct {
	Name    string `json:"name"`
	Frame   string `json:"frame_hex,omitempty"`
	Advance int64  `json:"advance_ms,omitempty"`
}

func rPacket(name string, id uint16, total, no, serial uint16, body []byte) rEvent {
	h := ref.TermHeader(id, false, "13800138000", serial)
	if total > 0 || no > 0 {
		h.Fragmented, h.Total, h.Number = true, total, no
	}
	return rEvent{Name: name, Frame: hx2(ref.Encode(h, body))}
}

var (
	bodyA = [][]byte{unhx("000000aa00000102" + strings.Repeat("11", 28)), {0x7E, 0x7D, 0x7E, 0x7D, 0x01, 0x02}, {0xAA}}
	bodyB = [][]byte{append([]byte{0x00, 0x01, 0x00, 0x00, 0x1C}, ref.Loc28(1, 2)[:20]...), ref.Loc28(1, 2)[20:]}
)

func c05Alphabet() []rEvent {
	return []rEvent{
		rPacket("A1", 0x0801, 3, 1, 10, bodyA[0]),
		rPacket("A2", 0x0801, 3, 2, 11, bodyA[1]),
		rPacket("A3", 0x0801, 3, 3, 12, bodyA[2]),
		rPacket("B1", 0x0704, 2, 1, 20, bodyB[0]),
		rPacket("B2", 0x0704, 2, 2, 21, bodyB[1]),
		rPacket("H", 0x0002, 0, 0, 30, nil),
		rPacket("L", 0x0200, 0, 0, 31, ref.Loc28(0, 0)),
		rPacket("B0", 0x0704, 0, 0, 32, ref.SampleBody(0x0704, false, "", 0)), // an ORDINARY message with the ID of transfer B
		rPacket("A#0", 0x0801, 3, 0, 40, []byte{1}),
		rPacket("A#4", 0x0801, 3, 4, 41, []byte{2}),
		rPacket("C#2", 0x0800, 2, 2, 42, []byte{3}),
		rPacket("D1/1", 0x1005, 1, 1, 43, ref.SampleBody(0x1005, false, "", 0)),
	}
}

// c05RestartAlphabet: three transfers of ONE message ID - A (N=3), R (N=3, other bodies and serials) and S (N=2) -
// for histories in which a transfer is abandoned with a gap and the next one begins.
func c05RestartAlphabet() []rEvent {
	bodyR := [][]byte{unhx("000000bb00000102" + strings.Repeat("22", 28)), {0x7D, 0x02, 0x7E, 0x33}, {0xBB, 0xBC}}
	bodyS := [][]byte{unhx("000000cc00000102" + strings.Repeat("33", 28)), {0xCC, 0x7E}}
	return []rEvent{
		rPacket("A1", 0x0801, 3, 1, 10, bodyA[0]),
		rPacket("A2", 0x0801, 3, 2, 11, bodyA[1]),
		rPacket("A3", 0x0801, 3, 3, 12, bodyA[2]),
		rPacket("R1", 0x0801, 3, 1, 50, bodyR[0]),
		rPacket("R2", 0x0801, 3, 2, 51, bodyR[1]),
		rPacket("R3", 0x0801, 3, 3, 52, bodyR[2]),
		rPacket("S1", 0x0801, 2, 1, 60, bodyS[0]),
		rPacket("S2", 0x0801, 2, 2, 61, bodyS[1]),
		rPacket("H", 0x0002, 0, 0, 30, nil),
	}
}

func c14Alphabet() []rEvent {
	return []rEvent{
		rPacket("X1", 0x0801, 3, 1, 10, bodyA[0]),
		rPacket("X2", 0x0801, 3, 2, 11, bodyA[1]),
		rPacket("X3", 0x0801, 3, 3, 12, bodyA[2]),
		rPacket("Y1", 0x0704, 2, 1, 20, bodyB[0]),
		rPacket("Y2", 0x0704, 2, 2, 21, bodyB[1]),
		rPacket("H", 0x0002, 0, 0, 30, nil),
		rPacket("Y0", 0x0704, 0, 0, 32, ref.SampleBody(0x0704, false, "", 0)), // an ordinary message with the ID of transfer Y
		{Name: "+4999ms", Advance: 4999},
		{Name: "+5001ms", Advance: 5001},
		{Name: "+30s", Advance: 30000},
		{Name: "+55s", Advance: 55000},
		{Name: "+60001ms", Advance: 60001},
	}
}

// ---- reference reassembler ----

type refTransfer struct {
	total   uint16
	parts   map[uint16][]byte
	first   uint16 // serial of packet 1
	serials []uint16
	create  int64
	update  int64
}

type refDeliver struct {
	ID      uint16
	Body    []byte
	Serials []uint16
}

type refReissue struct {
	ID      uint16 // message ID of the transfer
	Serial  uint16 // first packet's serial
	Missing []uint16
}

type refReasm struct {
	tr      map[uint16]*refTransfer
	restart bool // history left the property's precondition (packet 1 repeated while its transfer is active)
}

func newRefReasm() *refReasm { return &refReasm{tr: map[uint16]*refTransfer{}} }

// canon renders the reference state canonically (occupancy and ages relative to now).
func (r *refReasm) canon(now int64) string {
	var ids []int
	for id := range r.tr {
		ids = append(ids, int(id))
	}
	sort.Ints(ids)
	var b strings.Builder
	for _, id := range ids {
		t := r.tr[uint16(id)]
		fmt.Fprintf(&b, "%04x:", id)
		for i := uint16(1); i <= t.total; i++ {
			if _, ok := t.parts[i]; ok {
				b.WriteByte('#')
			} else {
				b.WriteByte('.')
			}
		}
		fmt.Fprintf(&b, "@%d/%d;", now-t.create, now-t.update)
	}
	return b.String()
}

// read processes the frames of one read at virtual time now (ms).
func (r *refReasm) read(frames []*ref.Frame, now int64) (complete []refDeliver, reissue []refReissue) {
	// a transfer still incomplete 60 s after it began is discarded and never delivered
	for id, t := range r.tr {
		if now-t.create > 60000 {
			delete(r.tr, id)
		}
	}
	for _, f := range frames {
		if !f.Fragmented {
			continue
		}
		t := r.tr[f.ID]
		if f.Number == 1 && f.Total >= 1 {
			if t != nil {
				r.restart = true
			}
			t = &refTransfer{total: f.Total, parts: map[uint16][]byte{}, first: f.Serial, create: now}
			r.tr[f.ID] = t
		}
		if t == nil || f.Number == 0 || f.Number > t.total {
			continue
		}
		t.parts[f.Number] = f.Body
		t.serials = append(t.serials, f.Serial)
		t.update = now
		if len(t.parts) == int(t.total) {
			var body []byte
			for i := uint16(1); i <= t.total; i++ {
				body = append(body, t.parts[i]...)
			}
			complete = append(complete, refDeliver{ID: f.ID, Body: body, Serials: t.serials})
			delete(r.tr, f.ID)
		}
	}
	for id, t := range r.tr {
		if now-t.update > 5000 {
			var miss []uint16
			for i := uint16(1); i <= t.total; i++ {
				if _, ok := t.parts[i]; !ok {
					miss = append(miss, i)
				}
			}
			reissue = append(reissue, refReissue{ID: id, Serial: t.first, Missing: miss})
			t.update = now
		}
	}
	sort.Slice(reissue, func(i, j int) bool { return reissue[i].ID < reissue[j].ID })
	return
}

// ---- driver ----

type rCase struct {
	Events []rEvent `json:"events"`
	Mode   string   `json:"mode"` // per-frame | coalesced | cut:<offset> (cut inside the concatenation of all frames)
	Conn   bool     `json:"via_connection,omitempty"`
	Prop   string   `json:"property"`
	// Restart: histories in which a transfer is abandoned and a NEW transfer of the same message ID begins (packet 1
	// again, other bodies) are inside the search; see restartOK for the discipline they obey
	Restart bool `json:"restarts_allowed,omitempty"`
}

// restartOK: the terminal works on ONE transfer per message ID at a time - packets 2..N always belong to the transfer
// whose packet 1 came last, and packet 1 of a transfer is not repeated while that transfer is active. (Packets cannot
// be attributed to a transfer other than by the message ID, so a packet of an abandoned transfer arriving after the
// next one began is outside what any server could handle.) Event names: <variant letter><packet number>.
func restartOK(events []rEvent) bool {
	cur := map[uint16]string{} // message ID -> variant of the latest packet 1
	have := map[uint16]map[uint16]bool{}
	for _, e := range events {
		if e.Frame == "" {
			continue
		}
		f, err := ref.Decode(unhx(e.Frame))
		if err != nil || !f.Fragmented || f.Number == 0 || f.Number > f.Total {
			continue
		}
		v := e.Name[:1]
		if f.Number == 1 {
			if cur[f.ID] == v && have[f.ID] != nil {
				return false // packet 1 repeated while its transfer is active
			}
			cur[f.ID], have[f.ID] = v, map[uint16]bool{}
		} else if cur[f.ID] != v {
			return false // packet of a transfer that is not the current one
		}
		if have[f.ID] != nil {
			have[f.ID][f.Number] = true
			if len(have[f.ID]) == int(f.Total) {
				have[f.ID] = nil // complete: the same transfer may be sent again
			}
		}
	}
	return true
}

type rObs struct {
	complete []refDeliver
	reissue  []refReissue
}

// rReads turns the event list into reads: each read is (time, bytes).
type rRead struct {
	at    int64
	bytes []byte
}

func rPlan(c rCase) (reads []rRead, frames [][]*ref.Frame) {
	now := int64(0)
	type piece struct {
		at int64
		b  []byte
	}
	var ps []piece
	for _, e := range c.Events {
		if e.Advance > 0 {
			now += e.Advance
			continue
		}
		ps = append(ps, piece{now, unhx(e.Frame)})
	}
	flush := func(at int64, b []byte) {
		for len(b) > 1023 { // a read never returns more than the connection's buffer holds
			reads = append(reads, rRead{at, b[:1023]})
			b = b[1023:]
		}
		if len(b) == 0 {
			return
		}
		reads = append(reads, rRead{at, b})
	}
	switch {
	case c.Mode == "per-frame":
		for _, p := range ps {
			flush(p.at, p.b)
		}
	case c.Mode == "coalesced":
		// frames that arrive at the same virtual time share a read
		var cur []byte
		at := int64(-1)
		for _, p := range ps {
			if p.at != at {
				flush(at, cur)
				cur, at = nil, p.at
			}
			cur = append(cur, p.b...)
		}
		flush(at, cur)
	case c.Mode == "split" || c.Mode == "pairs":
		// split: every frame cut in the middle (a read = tail of one frame + head of the next);
		// pairs: two frames per read. Time advances are ignored in these modes (C05 only).
		var all []byte
		var cuts []int
		for i, p := range ps {
			if c.Mode == "split" {
				cuts = append(cuts, len(all)+len(p.b)/2)
			} else if i%2 == 1 {
				cuts = append(cuts, len(all)+len(p.b))
			}
			all = append(all, p.b...)
		}
		pos := 0
		for _, cu := range append(cuts, len(all)) {
			if cu > pos {
				flush(0, all[pos:cu])
				pos = cu
			}
		}
	default: // cut:<offset>: everything (times ignored beyond the first) in two reads
		var off int
		fmt.Sscanf(c.Mode, "cut:%d", &off)
		var all []byte
		for _, p := range ps {
			all = append(all, p.b...)
		}
		if off > len(all) {
			off = len(all)
		}
		flush(0, all[:off])
		flush(0, all[off:])
	}
	// which frames complete in which read (a frame belongs to the read that carries its closing delimiter)
	frames = make([][]*ref.Frame, len(reads))
	var stream []byte
	consumed := 0
	for i, r := range reads {
		stream = append(stream, r.bytes...)
		fs, _ := ref.Split(stream[consumed:])
		for _, f := range fs {
			if d, err := ref.Decode(f); err == nil {
				frames[i] = append(frames[i], d)
			}
			consumed += len(f)
		}
	}
	return
}

func rEval(c rCase) (sig, diag string, nreads int, key string, interesting bool) {
	reads, frames := rPlan(c)
	rm := newRefReasm()
	names := make([]string, len(c.Events))
	for i, e := range c.Events {
		names[i] = e.Name
	}
	where := fmt.Sprintf("history [%s] mode %s", strings.Join(names, " "), c.Mode)
	if c.Restart && !restartOK(c.Events) {
		return "", "", 0, "", false // outside the discipline of the restart histories
	}
	if c.Conn {
		return rEvalConn(c, reads, frames, where)
	}
	ps := service.VerifNewParser()
	buf := make([]byte, 1023)
	for i, rd := range reads {
		vs.SetFreeClock(rd.at * 1e6)
		wantC, wantR := rm.read(frames[i], rd.at)
		if rm.restart && !c.Restart {
			return "", "", i, "", false // outside the property's precondition
		}
		n := copy(buf, rd.bytes)
		if n < len(rd.bytes) {
			panic("c05: read longer than 1023 bytes")
		}
		var msgs []*service.Message
		var err error
		if p := vc.Catch(func() { msgs, err = ps.Parse(buf[:n]) }); p != "" {
			return "panic:" + vc.PanicSite(p) + ":" + vc.PanicClass(p), fmt.Sprintf("reassembler panicked in read %d (%s): %s", i, where, p), i, "", true
		}
		if err != nil {
			return "valid-stream-rejected", fmt.Sprintf("read %d of valid frames returned %v (%s)", i, err, where), i, "", true
		}
		var gotC []refDeliver
		var gotR []refReissue
		for _, m := range msgs {
			switch {
			case m.ExtensionFields.SubcontractComplete:
				gotC = append(gotC, refDeliver{ID: m.JTMessage.Header.ID, Body: append([]byte(nil), m.JTMessage.Body...), Serials: []uint16{m.JTMessage.Header.SerialNumber}})
			case uint16(m.Command) == 0x8003:
				b := m.JTMessage.Body
				rr := refReissue{}
				if len(b) >= 3 {
					rr.Serial = uint16(b[0])<<8 | uint16(b[1])
					cnt := int(b[2])
					if len(b) != 3+2*cnt {
						return "reissue-malformed", fmt.Sprintf("0x8003 body %s: count byte %d does not match its list (%s)", hx(b), cnt, where), i, "", true
					}
					for k := 0; k < cnt; k++ {
						rr.Missing = append(rr.Missing, uint16(b[3+2*k])<<8|uint16(b[4+2*k]))
					}
				}
				gotR = append(gotR, rr)
			}
		}
		if len(wantC) > 0 || len(wantR) > 0 {
			interesting = true
		}
		// deliveries
		if len(gotC) != len(wantC) {
			cls := "missing"
			if len(gotC) > len(wantC) {
				cls = "spurious"
			}
			return "complete-" + cls, fmt.Sprintf("read %d delivered %d complete messages, reference says %d (%s)", i, len(gotC), len(wantC), where), i, "", true
		}
		for k := range wantC {
			if gotC[k].ID != wantC[k].ID {
				return "complete-id", fmt.Sprintf("read %d: complete message of %04x, want %04x (%s)", i, gotC[k].ID, wantC[k].ID, where), i, "", true
			}
			if !bytes.Equal(gotC[k].Body, wantC[k].Body) {
				return "complete-body", fmt.Sprintf("read %d: reassembled body of %04x is %s, the packet bodies in package order are %s (%s)", i, gotC[k].ID, hx(gotC[k].Body), hx(wantC[k].Body), where), i, "", true
			}
			if !serialIn(gotC[k].Serials[0], wantC[k].Serials) {
				return "complete-serial", fmt.Sprintf("read %d: complete message carries serial %d, not one of its packets' %v (%s)", i, gotC[k].Serials[0], wantC[k].Serials, where), i, "", true
			}
		}
		// re-requests (as a set: several transfers may be due in one read)
		if c.Prop == "C14" {
			if len(gotR) != len(wantR) {
				cls := "missing"
				if len(gotR) > len(wantR) {
					cls = "spurious"
				}
				return "reissue-" + cls, fmt.Sprintf("read %d at t=%dms produced %d re-requests, reference says %d (%s)", i, rd.at, len(gotR), len(wantR), where), i, "", true
			}
			for _, w := range wantR {
				found := false
				for _, g := range gotR {
					if g.Serial == w.Serial && fmt.Sprint(g.Missing) == fmt.Sprint(w.Missing) {
						found = true
					}
				}
				if !found {
					return "reissue-content", fmt.Sprintf("read %d at t=%dms: want 0x8003 naming serial %d and packets %v, got %+v (%s)", i, rd.at, w.Serial, w.Missing, gotR, where), i, "", true
				}
			}
		}
	}
	// canonical key of the state reached: ages are taken at the end of the history (trailing time advances count)
	end := int64(0)
	for _, e := range c.Events {
		end += e.Advance
	}
	vs.SetFreeClock(end * 1e6)
	// the key joins the real object's state with the reference model's: two histories are merged only when both agree
	key = ps.State(vtime.Now()) + "|ref:" + rm.canon(end)
	return "", "", len(reads), key, interesting
}

// rEvalConn replays the history through the real connection (run-to-block
// schedule): only complete messages may reach handlers, one reply each;
// re-requests appear on the socket once with the next platform serial.
func rEvalConn(c rCase, reads []rRead, frames [][]*ref.Frame, where string) (sig, diag string, nreads int, key string, interesting bool) {
	type rec struct{ w *world }
	mk := func() (func(), any) {
		vnet.Reset()
		r := &rec{}
		return func() {
			r.w = startWorld(worldOpts{})
			p := r.w.dial()
			last := int64(0)
			for _, rd := range reads {
				if rd.at > last {
					p.Drained()
					vs.Yield("settle", 0)
					vs.AdvanceClock((rd.at - last) * 1e6)
					last = rd.at
				}
				p.Send(rd.bytes)
			}
		}, r
	}
	x := &vs.Explorer{Make: mk, Check: func(*vs.Result, any) []vs.Violation { return nil }}
	res, user, _ := x.RunOnce(nil, nil, false)
	if v := baseViolations(res, serverIdle); len(v) > 0 {
		return "conn:" + v[0].Sig, v[0].Msg + " (" + where + ")", 0, "", true
	}
	w := user.(*rec).w
	rm := newRefReasm()
	var wantC []refDeliver
	var wantR []refReissue
	plain := 0
	for i, rd := range reads {
		cs, rs := rm.read(frames[i], rd.at)
		if rm.restart && !c.Restart {
			return "", "", 0, "", false
		}
		wantC = append(wantC, cs...)
		wantR = append(wantR, rs...)
		for _, f := range frames[i] {
			if !f.Fragmented && ref.IsDefaultID(f.ID) {
				plain++
			}
		}
	}
	var sub, comp int
	for _, e := range w.ev {
		if e.Kind != "hread" {
			continue
		}
		if e.Snap.SubSum > 0 && !e.Snap.Complete {
			sub++
		}
		if e.Snap.Complete {
			if comp < len(wantC) && !bytes.Equal(e.Snap.Body, wantC[comp].Body) {
				return "conn:complete-body", fmt.Sprintf("handler got reassembled body %s, want %s (%s)", hx(e.Snap.Body), hx(wantC[comp].Body), where), 0, "", true
			}
			comp++
		}
	}
	if sub > 0 {
		return "conn:subpackage-reached-handler", fmt.Sprintf("%d lone sub-packages reached a handler although filtering is on (%s)", sub, where), 0, "", true
	}
	if comp != len(wantC) {
		return "conn:complete-count", fmt.Sprintf("handlers saw %d complete messages, reference says %d (%s)", comp, len(wantC), where), 0, "", true
	}
	conns := vnet.Conns()
	if len(conns) != 1 {
		return "conn:harness", "no connection", 0, "", true
	}
	var n8003, nReply int
	for i, o := range conns[0].Out {
		f, err := ref.Decode(o.Data)
		if err != nil {
			return "conn:frame-undecodable", fmt.Sprintf("server wrote an invalid frame %s (%s)", hx(o.Data), where), 0, "", true
		}
		if f.Serial != uint16(i) {
			return "conn:platform-serial", fmt.Sprintf("frame %d on the socket carries platform serial %d (%s)", i, f.Serial, where), 0, "", true
		}
		if f.ID == 0x8003 {
			ok := false
			for _, wr := range wantR {
				var body []byte
				body = append(body, byte(wr.Serial>>8), byte(wr.Serial), byte(len(wr.Missing)))
				for _, m := range wr.Missing {
					body = append(body, byte(m>>8), byte(m))
				}
				if bytes.Equal(body, f.Body) {
					ok = true
				}
			}
			if !ok {
				return "conn:reissue-content", fmt.Sprintf("0x8003 on the socket has body %s, reference re-requests are %+v (%s)", hx(f.Body), wantR, where), 0, "", true
			}
			n8003++
		} else {
			nReply++
		}
	}
	if c.Prop == "C14" && n8003 != len(wantR) {
		return "conn:reissue-count", fmt.Sprintf("%d 0x8003 frames on the socket, reference says %d (%s)", n8003, len(wantR), where), 0, "", true
	}
	wantReplies := 0
	for _, d := range wantC {
		g := ref.Frame{Header: ref.Header{ID: d.ID}, Body: d.Body}
		if ref.IsDefaultID(d.ID) && !ref.ExpectedReply(&g).None {
			wantReplies++
		}
	}
	for i := range reads {
		for _, f := range frames[i] {
			if !f.Fragmented && ref.IsDefaultID(f.ID) && !ref.ExpectedReply(f).None {
				wantReplies++
			}
		}
	}
	if nReply != wantReplies {
		return "conn:reply-count", fmt.Sprintf("%d replies on the socket, want %d: one per complete message (%s)", nReply, wantReplies, where), 0, "", true
	}
	return "", "", len(reads), "", len(wantC) > 0 || len(wantR) > 0
}

// rSearch is the breadth-first search over event histories with
// deduplication on the canonical state of the real reassembler.
func rSearch(ctx *vc.Ctx, rep *vc.Report, prop string, alpha []rEvent, depth int, dedup bool, cutDepth int, connDepth int, restart ...bool) {
	allowRestart := len(restart) > 0 && restart[0]
	type node struct{ hist []int }
	frontier := []node{{}}
	seen := map[string]bool{}
	states := map[uint64]struct{}{} // distinct canonical states of the real reassembler reached by evaluations this worker owns
	var idx int64
	run := func(h []int, mode string, conn bool) (string, bool) {
		idx++
		if !ctx.Mine(idx) {
			return "", true
		}
		c := rCase{Mode: mode, Conn: conn, Prop: prop, Restart: allowRestart}
		for _, i := range h {
			c.Events = append(c.Events, alpha[i])
		}
		sig, diag, reads, key, interesting := rEval(c)
		rep.Evaluations++
		rep.Transitions += int64(reads)
		rep.TracesValidated++
		if key != "" && len(states) < 3000000 {
			states[hashBytes([]byte(key))] = struct{}{}
		}
		if interesting {
			rep.Nontrivial++
		}
		if sig != "" {
			rep.Outcome("fail:" + sig)
			rep.Add(sig, diag, "reasm", c)
		} else if interesting {
			rep.Outcome("ok-delivers")
		} else {
			rep.Outcome("ok-quiet")
		}
		if idx%100003 == 0 {
			rep.Sample(map[string]any{"history": rNames(c.Events), "mode": mode})
		}
		return key, sig == ""
	}
	for d := 1; d <= depth; d++ {
		var next []node
		for _, n := range frontier {
			for e := range alpha {
				if ctx.Expired() || rep.TooMany() {
					rep.Truncated = rep.Truncated || ctx.Expired()
					return
				}
				h := append(append([]int(nil), n.hist...), e)
				// every worker computes the successor's key (cheap) so that all agree on the frontier;
				// the oracle-bearing evaluations are sharded inside run()
				c := rCase{Mode: "per-frame", Prop: prop, Restart: allowRestart}
				for _, i := range h {
					c.Events = append(c.Events, alpha[i])
				}
				_, _, _, key, _ := rEval(c)
				run(h, "per-frame", false)
				run(h, "coalesced", false)
				if prop == "C05" {
					run(h, "split", false)
					run(h, "pairs", false)
				}
				if d <= cutDepth {
					L := 0
					for _, i := range h {
						L += len(alpha[i].Frame) / 2
					}
					for off := 1; off < L; off++ {
						run(h, fmt.Sprintf("cut:%d", off), false)
					}
				}
				if d <= connDepth {
					run(h, "per-frame", true)
					run(h, "coalesced", true)
				}
				if key == "" {
					// outside the property's precondition (or already reported): every extension is too
					rep.Count("histories_outside_precondition", 1)
					continue
				}
				if dedup {
					k := fmt.Sprintf("%s|%d", key, timeOf(alpha, h))
					if seen[k] {
						rep.Count("states_merged", 1)
						continue
					}
					seen[k] = true
				}
				next = append(next, node{h})
			}
		}
		frontier = next
		if dedup {
			rep.Count(fmt.Sprintf("fixpoint_frontier_depth_%d", d), int64(len(frontier)))
			if len(frontier) == 0 {
				rep.Count("fixpoint_closed_at_depth", int64(d))
				break
			}
			if depth > 16 && (d >= 16 || len(frontier) > 200000) {
				// the state space does not close (it does on the unchanged tree, within a few levels): stop and say so
				rep.Count("fixpoint_not_closed_stopped_at_depth", int64(d))
				rep.Truncated = true
				break
			}
		} else {
			rep.Count(fmt.Sprintf("frontier_depth_%d", d), int64(len(frontier)))
		}
	}
	if dedup {
		rep.Count("fixpoint_distinct_states", int64(len(seen)))
	}
	rep.States += int64(len(states))
}

func timeOf(alpha []rEvent, h []int) int64 {
	// the absolute time does not matter, only ages do (they are part of the state dump); keep 0
	return 0
}

func rNames(es []rEvent) string {
	var n []string
	for _, e := range es {
		n = append(n, e.Name)
	}
	return strings.Join(n, " ")
}

func rReplay(raw json.RawMessage) string {
	var c rCase
	_ = json.Unmarshal(raw, &c)
	_, d, _, _, _ := rEval(c)
	return d
}

func init() {
	vc.Register(&vc.Check{
		ID: "C05", Level: "model_checking",
		Rule: "breadth-first search over ALL histories up to depth 5 (thorough 6) of the events {A1,A2,A3 (0x0801, N=3, unequal bodies, one escape-dense), B1,B2 (0x0704, N=2), heartbeat, location, B0 (an unfragmented 0x0704: an ordinary message carrying the ID of a transfer in progress), A#0, A#4 (impossible numbers), C#2 (no transfer of that ID), D1/1 (N=1)} on the REAL reassembler, each history fed one frame per read, all frames coalesced, every frame split in the middle, two frames per read, under EVERY 1-cut for depth <= 3, and through the real connection for depth <= 3 (handlers must see complete messages only, one reply each); then the same search with deduplication on (real state, reference state) run to its FIXPOINT (every reachable reassembler state over this alphabet at any depth, one frame per read and coalesced); plus N=255 transfers in forward, reverse and interleaved order. " +
			"Histories that repeat packet 1 of an active transfer leave the property's precondition and are skipped. A second search (same depths, and to its fixpoint) covers ABANDONED transfers: three transfers of one message ID (A and R with N=3 and different bodies, S with N=2), where a new transfer may begin (its packet 1) while the previous one still has a gap and packets 2..N always belong to the transfer begun last: what is delivered must be the begun-last transfer, whole, never a mixture with packets of the abandoned one. states = distinct canonical reassembler states (slot occupancy, buffered bytes) per worker, summed; transitions = reads. Non-trivial = history that completes at least one transfer",
		Assumptions: []string{"reference reassembler in checks/c05.go", "accessor VerifParser (tag verif) for the extractor-level search; connection-level replays use no accessor"},
		Run: func(ctx *vc.Ctx, rep *vc.Report) {
			depth := 5
			if ctx.Thorough() {
				depth = 6
			}
			rSearch(ctx, rep, "C05", c05Alphabet(), depth, false, 3, 3)
			// fixpoint: breadth-first search with state deduplication until no new (real state, reference state) pair
			// appears - every reachable state of the reassembler over this alphabet, at any depth
			before := rep.Counters["states_merged"]
			rSearch(ctx, rep, "C05", c05Alphabet(), 64, true, 0, 0)
			rep.Count("fixpoint_reached_states_merged", rep.Counters["states_merged"]-before)
			// abandoned transfers: a NEW transfer of the same message ID begins while the previous one has a gap
			rSearch(ctx, rep, "C05", c05RestartAlphabet(), depth, false, 0, 3, true)
			rSearch(ctx, rep, "C05", c05RestartAlphabet(), 64, true, 0, 0, true)
			c05Big(ctx, rep)
		},
		Drivers: map[string]func(json.RawMessage) string{"reasm": rReplay},
	})
	vc.Register(&vc.Check{
		ID: "C14", Level: "model_checking",
		Rule: "breadth-first search with state deduplication over histories up to depth 6 (thorough 8) of {X1,X2,X3 (N=3), Y1,Y2 (N=2), heartbeat, Y0 (an unfragmented message with Y's ID), +4999ms, +5001ms, +30s, +55s, +60001ms} on the REAL reassembler under a virtual clock, one frame per read and frames of one instant coalesced; plus, for N=2..6, EVERY non-empty set of missing packets x idle time {4999,5001,30000,55000,60001} ms x {no, partial, full} resupply x second idle time, and N=255 families (each single packet missing, evens, odds, all but the first, all but first and last); representative histories through the real connection (0x8003 on the socket once, with the next platform serial); 2..8 transfers of different message IDs stalled at once, on the reassembler and through the connection (one re-request each, two rounds). " +
			"states = distinct canonical reassembler states (slot occupancy and ages relative to now) per worker, summed; transitions = reads. Non-trivial = history that triggers a re-request, an expiry or a completion",
		Assumptions: []string{"idle/age exactly equal to 5 s / 60 s is not exercised (the property does not say which side the boundary belongs to)", "the clock is virtual (vtime); no wall clock"},
		Run: func(ctx *vc.Ctx, rep *vc.Report) {
			depth := 6
			if ctx.Thorough() {
				depth = 8
			}
			rSearch(ctx, rep, "C14", c14Alphabet(), depth, true, 0, 4)
			c14Subsets(ctx, rep)
			c14Many(ctx, rep)
		},
		Drivers: map[string]func(json.RawMessage) string{"reasm": rReplay},
	})
}

func rOne(ctx *vc.Ctx, rep *vc.Report, idx *int64, c rCase) {
	*idx++
	if !ctx.Mine(*idx) {
		return
	}
	sig, diag, reads, _, interesting := rEval(c)
	rep.Evaluations++
	rep.Transitions += int64(reads)
	rep.TracesValidated++
	rep.States++
	if interesting {
		rep.Nontrivial++
	}
	if sig != "" {
		rep.Outcome("fail:" + sig)
		rep.Add(sig, diag, "reasm", c)
	} else {
		rep.Outcome("ok-family")
	}
}

// c05Big: one N=255 transfer in forward, reverse and interleaved order.
func c05Big(ctx *vc.Ctx, rep *vc.Report) {
	var idx int64
	mk := func(order []int) rCase {
		c := rCase{Mode: "per-frame", Prop: "C05"}
		for _, k := range order {
			c.Events = append(c.Events, rPacket(fmt.Sprintf("P%d", k), 0x0801, 255, uint16(k), uint16(1000+k), []byte{byte(k), 0x7E, byte(k >> 1)}))
		}
		return c
	}
	fwd := make([]int, 255)
	for i := range fwd {
		fwd[i] = i + 1
	}
	rev := []int{1}
	for k := 255; k >= 2; k-- {
		rev = append(rev, k)
	}
	inter := []int{1}
	for lo, hi := 2, 255; lo <= hi; lo, hi = lo+1, hi-1 {
		inter = append(inter, lo)
		if hi != lo {
			inter = append(inter, hi)
		}
	}
	dup := append(append([]int{}, fwd[:200]...), fwd[100:]...)
	for _, o := range [][]int{fwd, rev, inter, dup} {
		rOne(ctx, rep, &idx, mk(o))
		c := mk(o)
		c.Conn = true
		rOne(ctx, rep, &idx, c)
	}
}

// c14Many: K = 2..8 transfers of different message IDs stalled at the same time (more than the reader->writer queue for
// re-requests holds), one heartbeat after the idle time: every one of them must get its own re-request.
func c14Many(ctx *vc.Ctx, rep *vc.Report) {
	var idx int64
	ids := []uint16{0x0801, 0x0704, 0x0200, 0x0100, 0x0102, 0x0805, 0x0800, 0x1205}
	hb := rPacket("H", 0x0002, 0, 0, 900, nil)
	for K := 2; K <= len(ids); K++ {
		for _, idle := range []int64{4999, 5001} {
			for _, conn := range []bool{false, true} {
				c := rCase{Mode: "per-frame", Prop: "C14", Conn: conn}
				for k := 0; k < K; k++ {
					c.Events = append(c.Events, rPacket(fmt.Sprintf("T%d.1/3", k), ids[k], 3, 1, uint16(100+10*k), []byte{byte(k), 0x7E, 1}))
					if k%2 == 1 {
						c.Events = append(c.Events, rPacket(fmt.Sprintf("T%d.3/3", k), ids[k], 3, 3, uint16(102+10*k), []byte{byte(k), 3}))
					}
				}
				c.Events = append(c.Events, rEvent{Name: fmt.Sprintf("+%dms", idle), Advance: idle}, hb,
					rEvent{Name: "+5001ms", Advance: 5001}, hb)
				rOne(ctx, rep, &idx, c)
			}
		}
	}
}

// c14Subsets: every non-empty set of missing packets for N = 2..6, and the N=255 families.
func c14Subsets(ctx *vc.Ctx, rep *vc.Report) {
	var idx int64
	pk := func(N, k int) rEvent {
		return rPacket(fmt.Sprintf("P%d/%d", k, N), 0x0801, uint16(N), uint16(k), uint16(500+k), []byte{byte(k), byte(N), 0x7D})
	}
	adv := func(ms int64) rEvent { return rEvent{Name: fmt.Sprintf("+%dms", ms), Advance: ms} }
	hb := rPacket("H", 0x0002, 0, 0, 30, nil)
	family := func(N int, missing []int, conn bool) {
		miss := map[int]bool{}
		for _, m := range missing {
			miss[m] = true
		}
		var base []rEvent
		for k := 1; k <= N; k++ {
			if !miss[k] {
				base = append(base, pk(N, k))
			}
		}
		for _, t1 := range []int64{4999, 5001, 30000, 55000, 60001} {
			for _, resupply := range []string{"none", "first", "all"} {
				for _, t2 := range []int64{0, 4999, 5001} {
					ev := append(append([]rEvent(nil), base...), adv(t1), hb)
					switch resupply {
					case "first":
						ev = append(ev, pk(N, missing[0]))
					case "all":
						for _, m := range missing {
							ev = append(ev, pk(N, m))
						}
					}
					if t2 > 0 {
						ev = append(ev, adv(t2))
					}
					ev = append(ev, hb)
					if resupply != "all" { // finally supply everything still missing
						for _, m := range missing {
							ev = append(ev, pk(N, m))
						}
					}
					rOne(ctx, rep, &idx, rCase{Events: ev, Mode: "per-frame", Prop: "C14", Conn: conn})
				}
			}
		}
	}
	for N := 2; N <= 6; N++ {
		for mask := 1; mask < 1<<(N-1); mask++ {
			var missing []int
			for b := 0; b < N-1; b++ {
				if mask&(1<<b) != 0 {
					missing = append(missing, b+2)
				}
			}
			family(N, missing, false)
			if N <= 4 {
				family(N, missing, true)
			}
		}
		if ctx.Expired() {
			rep.Truncated = true
			return
		}
	}
	var fams [][]int
	for k := 2; k <= 255; k += 23 {
		fams = append(fams, []int{k})
	}
	var ev, od, allButFirst, mid []int
	for k := 2; k <= 255; k++ {
		allButFirst = append(allButFirst, k)
		if k%2 == 0 {
			ev = append(ev, k)
		} else {
			od = append(od, k)
		}
		if k < 255 {
			mid = append(mid, k)
		}
	}
	fams = append(fams, ev, od, allButFirst, mid, []int{255}, []int{2, 255})
	for _, m := range fams {
		family(255, m, false)
	}
	family(255, []int{2, 128, 255}, true)
}
