package checks

import (
	"fmt"
	"os"
	"strings"
	"sync"
	"time"

	"verif/harness/vc"
	"verif/harness/vnet"
	"verif/harness/vs"
)

// Unbounded exploration (every choice at every point, no deviation bound) with the explorer's cache of
// happens-before state keys. Every state and every transition of the scenario is executed at least once; the oracles
// used here judge transitions (panics), final states (stranded threads, sockets, per-caller results) and per-thread
// observations, all of which are functions of the happens-before state. Oracles over the global order of events
// (C11's linearizability of call/return intervals) are decided by the bounded search only.

var (
	cacheSelfTest    sync.Once
	cacheSelfTestErr error
)

type worlder interface{ theWorld() *world }

func (r *cmdRun) theWorld() *world  { return r.w }
func (r *convRun) theWorld() *world { return r.w }
func (r *hostRun) theWorld() *world { return r.w }
func (r *regRun) theWorld() *world  { return r.w }

// worldDigest summarises what the harness can see of the state, in a form that does not depend on the order in which
// independent events happened: per connection (identified by its dialling thread) the bytes written and pending,
// per caller whether and how it returned, and the multiset of callbacks delivered so far.
//
//go:norace
func worldDigest(user any) uint64 {
	var d uint64
	for _, c := range vnet.Conns() {
		d += c.Digest() * 0x9e3779b97f4a7c15
	}
	wr, ok := user.(worlder)
	if !ok || wr.theWorld() == nil {
		return d
	}
	w := wr.theWorld()
	for _, c := range w.calls {
		h := hashBytes([]byte(c.Name))
		if c.Started {
			h = h*31 + 1
		}
		if c.Done {
			h = h*31 + 2
			if c.Reply != nil {
				h = h*31 + hashBytes([]byte(fmt.Sprint(c.Snap.PlatSeq, c.Snap.ID, c.Snap.Err != "")))
			}
		}
		d += h * 0xbf58476d1ce4e5b9
	}
	for _, e := range w.ev {
		h := hashBytes([]byte(e.Kind)) ^ (uint64(e.Snap.ID)<<32 | uint64(e.Snap.Serial)<<16 | uint64(e.Snap.PlatSeq))
		h ^= hashBytes([]byte(e.Key))
		if e.Err != nil {
			h ^= 0x5555
		}
		d += h * 0x94d049bb133111eb
	}
	return d
}

// exploreAll runs one scenario without deviation bound. The scenario is owned by one worker (the cache is per process).
func exploreAll(ctx *vc.Ctx, rep *vc.Report, idx *int64, name string, mk func() (func(), any), check func(*vs.Result, any) []vs.Violation,
	driver string, mkCase func(vs.Found) any, maxStates int, envBound int) {
	*idx++
	if !ctx.Mine(*idx) {
		return
	}
	cacheSelfTest.Do(func() { _, cacheSelfTestErr = vs.CacheSelfTest() })
	if cacheSelfTestErr != nil {
		rep.Nondet = "state-cache self-test failed (the cached search cannot be trusted): " + cacheSelfTestErr.Error()
		return
	}
	t0 := time.Now()
	if os.Getenv("VERIF_TRACE_LONG") != "" {
		inner, printed := check, false
		check = func(res *vs.Result, user any) []vs.Violation {
			if res.Steps > 1500 && !printed {
				printed = true
				f, _ := os.OpenFile("/tmp/long.log", os.O_APPEND|os.O_CREATE|os.O_WRONLY, 0o644)
				fmt.Fprintf(f, "LONG execution: %d steps horizon=%v blocked=%v\n", res.Steps, res.Horizon, res.Blocked)
				f.Close()
			}
			return inner(res, user)
		}
	}
	x := &vs.Explorer{Name: name + ":all-interleavings", Unbounded: true, Bound: envBound, Make: mk, Check: check, Digest: worldDigest,
		Deadline: ctx.Deadline, MaxVisited: maxStates, Horizon: 3000000}
	x.Explore()
	st := x.Stats
	rep.Evaluations += st.Executions
	rep.Transitions += st.Transitions
	rep.States += int64(st.Visited)
	rep.TracesValidated += st.Executions
	rep.Nontrivial += st.Executions
	rep.Count("unbounded_state_cache_hits", st.Pruned)
	if st.Nondet != "" {
		if strings.Contains(st.Nondet, "the key is too coarse") {
			// the cache merged two different states in this scenario: its cached pass proves nothing and is discarded
			// (reported, not an alarm: the bounded search does not use the cache)
			rep.Count("unbounded_scenarios_discarded_key_collision", 1)
			rep.Notes = append(rep.Notes, "cached search discarded: "+st.Nondet)
			return
		}
		rep.Nondet = st.Nondet
		return
	}
	switch {
	case st.Truncated && st.Visited >= maxStates:
		rep.Count(fmt.Sprintf("unbounded_scenarios_capped_by_state_limit_env%d", envBound), 1)
		rep.Caps = append(rep.Caps, fmt.Sprintf("unbounded search of %s stopped at the state limit %d (bounded search unaffected)", name, maxStates))
	case st.Truncated:
		// the time cap ended the cached pass; the deviation-bounded families ran before it and are not affected
		rep.Count("unbounded_scenarios_stopped_by_time_cap", 1)
		rep.Caps = append(rep.Caps, fmt.Sprintf("time cap hit in the cached search of %s (bounded search unaffected)", name))
	default:
		rep.Count(fmt.Sprintf("unbounded_scenarios_completed_env%d", envBound), 1)
		rep.Count("unbounded_states_of_completed_scenarios", int64(st.Visited))
		if ctx.Worker == 0 || len(rep.Notes) < 4 {
			rep.Notes = append(rep.Notes, fmt.Sprintf("all interleavings of %s: %d states, %d executions, %.1fs", name, st.Visited, st.Executions, time.Since(t0).Seconds()))
		}
	}
	for _, f := range x.Found {
		rep.Outcome("fail:" + f.Sig)
		rep.Add(f.Sig, fmt.Sprintf("scenario %s, unbounded search: %s", name, f.Msg), driver, mkCase(f))
	}
}

// envBoundOf: deviation budget for environment choices in the unbounded search (VERIF_ENVBOUND overrides, for experiments).
func envBoundOf(def int) int {
	if v := os.Getenv("VERIF_ENVBOUND"); v != "" {
		n := 0
		fmt.Sscanf(v, "%d", &n)
		return n
	}
	return def
}
