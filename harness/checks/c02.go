package checks

import (
	"bytes"
	"encoding/json"
	"fmt"

	"github.com/cuteLittleDevil/go-jt808/protocol/jt808"
	"verif/harness/ref"
	"verif/harness/vc"
)

// C02 - exactly the well-formed frames are accepted (E2).

// c02Eval decodes s with the library (exact-capacity copy) and the reference
// and compares verdict and fields. class describes the case for statistics.
func c02Eval(s []byte) (diag, sig string, valid bool) {
	rf, rerr := ref.Decode(s)
	m := jt808.NewJTMessage()
	var lerr error
	if p := vc.Catch(func() { lerr = m.Decode(exact(s)) }); p != "" {
		return "Decode panicked: " + p + " on " + hx(s), "decode-panic:" + vc.PanicSite(p), rerr == nil
	}
	if rerr != nil {
		if lerr == nil {
			return fmt.Sprintf("malformed frame accepted (%v): %s -> ID=%#x body=%s", rerr, hx(s), m.Header.ID, hx(m.Body)),
				"accepts-invalid:" + rerr.Error(), false
		}
		return "", "", false
	}
	if lerr != nil {
		return fmt.Sprintf("well-formed frame rejected (%v): %s", lerr, hx(s)), "rejects-valid:" + lerr.Error(), true
	}
	h := m.Header
	bad := func(f string, got, want any) (string, string, bool) {
		return fmt.Sprintf("field %s = %v, standard layout says %v, frame %s", f, got, want, hx(s)), "field:" + f, true
	}
	b2u := func(b bool) uint8 {
		if b {
			return 1
		}
		return 0
	}
	switch {
	case h.ID != rf.ID:
		return bad("ID", h.ID, rf.ID)
	case int(h.Property.BodyDayaLen) != rf.BodyLen:
		return bad("BodyDayaLen", h.Property.BodyDayaLen, rf.BodyLen)
	case h.Property.EncryptMethod != rf.Encrypt&1:
		return bad("EncryptMethod(bit10)", h.Property.EncryptMethod, rf.Encrypt&1)
	case h.Property.PacketFragmented != b2u(rf.Fragmented):
		return bad("PacketFragmented", h.Property.PacketFragmented, rf.Fragmented)
	case h.Property.Version != b2u(rf.V2019):
		return bad("Version", h.Property.Version, rf.V2019)
	case h.TerminalPhoneNo != ref.PhoneString(rf.PhoneBCD):
		return bad("TerminalPhoneNo", h.TerminalPhoneNo, ref.PhoneString(rf.PhoneBCD))
	case h.SerialNumber != rf.Serial:
		return bad("SerialNumber", h.SerialNumber, rf.Serial)
	case h.SubPackageSum != rf.Total:
		return bad("SubPackageSum", h.SubPackageSum, rf.Total)
	case h.SubPackageNo != rf.Number:
		return bad("SubPackageNo", h.SubPackageNo, rf.Number)
	case !bytes.Equal(m.Body, rf.Body):
		return bad("Body", hx(m.Body), hx(rf.Body))
	case m.VerifyCode != rf.Checksum:
		return bad("VerifyCode", m.VerifyCode, rf.Checksum)
	}
	if (rf.V2019 && int(h.ProtocolVersion) != 3) || (!rf.V2019 && int(h.ProtocolVersion) != 2) {
		return bad("ProtocolVersion", h.ProtocolVersion, rf.V2019)
	}
	// the message decoded from the PREVIOUS accepted frame of this worker (its own message value, its own input slice)
	// must still read as that frame now that another frame has been decoded: body, and the phone digits Encode writes
	if c02Prev != nil {
		pm, pf, praw := c02Prev, c02PrevRef, c02PrevRaw
		c02Prev = nil
		if !bytes.Equal(pm.Body, pf.Body) {
			return fmt.Sprintf("the message decoded from %s had body %s; after decoding the next frame %s its body reads %s", hx(praw), hx(pf.Body), hx(s), hx(pm.Body)), "earlier-message-changed:body", true
		}
		if bytes.IndexByte(praw, 0x7d) >= 0 {
			var enc []byte
			if p := vc.Catch(func() { enc = pm.Header.Encode(pm.Body) }); p == "" {
				if ef, err := ref.Decode(enc); err != nil || !bytes.Equal(ef.PhoneBCD, pf.PhoneBCD) {
					return fmt.Sprintf("the message decoded from %s, re-encoded after the next frame %s was decoded, gives %s (phone digits differ or undecodable: %v)", hx(praw), hx(s), hx(enc), err), "earlier-message-changed:phone", true
				}
			}
		}
	}
	c02Prev, c02PrevRef, c02PrevRaw = m, &ref.Frame{Header: rf.Header, Body: bytes.Clone(rf.Body)}, bytes.Clone(s)
	c02PrevRef.PhoneBCD = bytes.Clone(rf.PhoneBCD)
	// the same frame through ONE message value and ONE buffer that have decoded every earlier accepted frame of this
	// worker (a connection's read buffer and a re-used JTMessage): phone, ID, serial and body must be this frame's
	if c02Reused == nil {
		c02Reused, c02Shared = jt808.NewJTMessage(), make([]byte, 0, 4096)
	}
	if len(s) <= cap(c02Shared) {
		buf := c02Shared[:len(s):len(s)]
		copy(buf, s)
		var rerr2 error
		if p := vc.Catch(func() { rerr2 = c02Reused.Decode(buf) }); p != "" || rerr2 != nil {
			c02Reused = nil
			return fmt.Sprintf("a re-used message decoding from a re-used buffer fails (%v %s) on the well-formed frame %s", rerr2, p, hx(s)), "reused:rejects-valid", true
		}
		g := c02Reused.Header
		if g.ID != rf.ID || g.TerminalPhoneNo != ref.PhoneString(rf.PhoneBCD) || g.SerialNumber != rf.Serial || !bytes.Equal(c02Reused.Body, rf.Body) || g.ProtocolVersion != h.ProtocolVersion ||
			g.SubPackageSum != rf.Total || g.SubPackageNo != rf.Number || g.Property.PacketFragmented != h.Property.PacketFragmented || g.Property.Version != h.Property.Version {
			got := fmt.Sprintf("ID=%#x phone=%s serial=%d version=%v package=%d/%d body=%s", g.ID, g.TerminalPhoneNo, g.SerialNumber, g.ProtocolVersion, g.SubPackageNo, g.SubPackageSum, hx(c02Reused.Body))
			c02Reused = nil
			return fmt.Sprintf("a re-used message decoding from a re-used buffer yields %s for frame %s (fresh: phone=%s serial=%d)", got, hx(s), ref.PhoneString(rf.PhoneBCD), rf.Serial), "reused:field", true
		}
	}
	return "", "", true
}

var (
	c02Reused  *jt808.JTMessage
	c02Shared  []byte
	c02Prev    *jt808.JTMessage
	c02PrevRef *ref.Frame
	c02PrevRaw []byte
)

func init() {
	vc.Register(&vc.Check{
		ID:    "C02",
		Level: "exploration",
		Rule: "(i) EVERY string 7E m 7E with m over {7D,01,02,00} of length 0..13 (thorough ..15) and every string of length <=6 over {7E,7D,01,02,00,FF} without the frame shape; " +
			"(ii) structured product: ID menu x property words (all single bits, version/fragment/encrypt combinations, declared length {0,1,2,5,1023}) x phone x serial x package fields x actual body length = declared+{-1,0,+1} " +
			"x checksum {right, off by one bit, steered to 7D, steered to 7E} x escape rendering {canonical, raw 7D last, raw 7D elsewhere, 7D 00, 7D 03, 7D before the closing delimiter}; " +
			"(iii) for valid frames of both versions with and without package fields: every truncation, every single-bit flip, every single-byte substitution by all 256 values, every single-byte insertion of a special byte, either delimiter removed, every prefix of the payload closed by its own matching check code (too short for the header its property word announces). " +
			"Every accepted frame is also decoded by ONE re-used message from ONE re-used buffer (fields must be this frame's). Strings with an interior 0x7E are outside the property and skipped. Non-trivial = the reference accepts the string (a valid frame whose fields are then compared) or the string differs from a valid frame in exactly one byte/bit",
		Assumptions: []string{"reference validator harness/ref/frame.go; encryption field compared as bit 10 only, as the repository documents"},
		Run:         c02Run,
		Drivers: map[string]func(json.RawMessage) string{"c02": func(raw json.RawMessage) string {
			var s string
			_ = json.Unmarshal(raw, &s)
			d, _, _ := c02Eval(unhx(s))
			return d
		}},
	})
}

func c02Run(ctx *vc.Ctx, rep *vc.Report) {
	eval := func(s []byte, class string, near bool) {
		if len(s) > 2 && bytes.IndexByte(s[1:len(s)-1], 0x7E) >= 0 {
			// interior delimiter: outside the property
			rep.Count("skipped_interior_delimiter", 1)
			return
		}
		diag, sig, valid := c02Eval(s)
		rep.Evaluations++
		if valid || near {
			rep.Nontrivial++
		}
		switch {
		case diag != "":
			rep.Outcome("fail:" + sig)
			rep.Add(sig, diag, "c02", hx2(s))
		case valid:
			rep.Outcome(class + ":accepted")
		default:
			rep.Outcome(class + ":rejected")
		}
	}
	// (i) exhaustive short strings
	maxL := 13
	if ctx.Thorough() {
		maxL = 15
	}
	alpha := []byte{0x7D, 0x01, 0x02, 0x00}
	for L := 0; L <= maxL && !rep.TooMany(); L++ {
		// shard on the first min(L,4) symbols
		pre := min(L, 4)
		npre := 1
		for i := 0; i < pre; i++ {
			npre *= 4
		}
		s := make([]byte, L+2)
		s[0], s[L+1] = 0x7E, 0x7E
		for p := 0; p < npre; p++ {
			if !ctx.Mine(int64(p) + int64(L)) {
				continue
			}
			if ctx.Expired() {
				rep.Truncated = true
				rep.Caps = append(rep.Caps, fmt.Sprintf("deadline during exhaustive length %d", L))
				break
			}
			x := p
			for i := 0; i < pre; i++ {
				s[1+i] = alpha[x%4]
				x /= 4
			}
			rest := L - pre
			ctr := make([]int, rest)
			for {
				for i := 0; i < rest; i++ {
					s[1+pre+i] = alpha[ctr[i]]
				}
				eval(s, "short", false)
				i := 0
				for ; i < rest; i++ {
					ctr[i]++
					if ctr[i] < 4 {
						break
					}
					ctr[i] = 0
				}
				if i == rest {
					break
				}
			}
		}
	}
	// strings of length <= 6 over the special bytes, any shape
	sp := newStrSpace([]byte{0x7E, 0x7D, 0x01, 0x02, 0x00, 0xFF}, 6)
	buf := make([]byte, 0, 8)
	for i := int64(0); i < sp.total; i++ {
		if ctx.Mine(i) {
			s := sp.at(i, buf)
			if len(s) == 0 {
				s = []byte{}
			}
			c02EvalAny(rep, append([]byte(nil), s...))
		}
	}
	// (ii) structured
	var idx int64
	ids := []uint16{0x0002, 0x0200, 0x7E7D, 0xFFFF}
	props := []uint16{}
	for b := 0; b < 16; b++ {
		props = append(props, 1<<b)
	}
	for _, vfe := range []uint16{0, 1 << 14, 1 << 13, 1 << 10, 1<<14 | 1<<13, 1<<14 | 1<<10, 1<<13 | 1<<10, 1<<14 | 1<<13 | 1<<10, 1 << 11, 1 << 12, 1 << 15} {
		for _, dl := range []uint16{0, 1, 2, 5, 1023} {
			props = append(props, vfe|dl)
		}
	}
	pkgs := [][2]uint16{{0, 0}, {1, 1}, {3, 2}, {0x7E7D, 0x7D7E}, {65535, 65535}}
	for _, id := range ids {
		for _, prop := range props {
			for pi, phone := range []string{"013800138000", "7e7d017d027e"} {
				for _, serial := range []uint16{0, 0x7D7E} {
					for _, pk := range pkgs {
						if prop&(1<<13) == 0 && pk != pkgs[0] {
							continue
						}
						for delta := -1; delta <= 1; delta++ {
							idx++
							if !ctx.Mine(idx) {
								continue
							}
							v19 := prop&(1<<14) != 0
							declared := int(prop & 0x3FF)
							actual := declared + delta
							if actual < 0 {
								continue
							}
							p := []byte{byte(id >> 8), byte(id), byte(prop >> 8), byte(prop)}
							if v19 {
								p = append(p, 1)
								p = append(p, unhx(phone+[]string{"00000000", "7d7e0102"}[pi])...)
							} else {
								p = append(p, unhx(phone)...)
							}
							p = append(p, byte(serial>>8), byte(serial))
							if prop&(1<<13) != 0 {
								p = append(p, byte(pk[0]>>8), byte(pk[0]), byte(pk[1]>>8), byte(pk[1]))
							}
							for i := 0; i < actual; i++ {
								p = append(p, []byte{0x7E, 0x7D, 0x02, 0x01, 0x30}[i%5])
							}
							c02Structured(rep, eval, p, actual > 0)
						}
					}
				}
			}
		}
	}
	// (iii) mutations of valid frames
	var valids [][]byte
	for _, v19 := range []bool{false, true} {
		for _, frag := range []bool{false, true} {
			for _, body := range [][]byte{nil, {0x01}, {0x7E, 0x7D, 0x01, 0x02, 0x00}, bytes.Repeat([]byte{0x7D, 0x7E}, 8), bytes.Repeat([]byte{0x41}, 40)} {
				for _, ser := range []uint16{1, 0x7E7D} {
					h := ref.TermHeader(0x0200, v19, "13800138000", ser)
					h.Fragmented = frag
					if frag {
						h.Total, h.Number = 3, 1
					}
					valids = append(valids, ref.Encode(h, body))
					h.Encrypt = 1
					h.ID = 0x7E02
					valids = append(valids, ref.Encode(h, body))
				}
			}
		}
	}
	for vi, f := range valids {
		if !ctx.Mine(int64(vi)) {
			continue
		}
		eval(f, "valid", true)
		for cut := 0; cut < len(f); cut++ {
			eval(append([]byte(nil), f[:cut]...), "truncated", true)
			if cut > 0 {
				eval(append(append([]byte(nil), f[:cut]...), 0x7E), "truncated+delim", true)
			}
		}
		for pos := 0; pos < len(f); pos++ {
			for bit := 0; bit < 8; bit++ {
				g := append([]byte(nil), f...)
				g[pos] ^= 1 << bit
				eval(g, "bitflip", true)
			}
			for v := 0; v < 256; v++ {
				if byte(v) == f[pos] {
					continue
				}
				g := append([]byte(nil), f...)
				g[pos] = byte(v)
				eval(g, "subst", true)
			}
		}
		for pos := 1; pos < len(f); pos++ {
			for _, v := range []byte{0x7D, 0x01, 0x02, 0x00, 0xFF} {
				g := append(append(append([]byte(nil), f[:pos]...), v), f[pos:]...)
				eval(g, "insert", true)
			}
		}
		// (iv) every prefix of the payload, closed by ITS OWN check code (a frame that is too short for the header its
		// property word announces, but intact on the wire)
		if full, err := ref.Unescape(f); err == nil && len(full) > 1 {
			pl := full[:len(full)-1]
			for cut := 0; cut < len(pl); cut++ {
				q := append([]byte(nil), pl[:cut]...)
				eval(ref.Escape(append(q, ref.Xor(q))), "payload-prefix", true)
			}
		}
		eval(append([]byte(nil), f[1:]...), "no-open-delim", true)
		eval(append([]byte(nil), f[:len(f)-1]...), "no-close-delim", true)
		if vi%7 == 0 {
			rep.Sample(map[string]any{"valid_frame_mutated": hx(f)})
		}
	}
}

func c02EvalAny(rep *vc.Report, s []byte) {
	if len(s) > 2 && bytes.IndexByte(s[1:len(s)-1], 0x7E) >= 0 {
		rep.Count("skipped_interior_delimiter", 1)
		return
	}
	diag, sig, valid := c02Eval(s)
	rep.Evaluations++
	if diag != "" {
		rep.Outcome("fail:" + sig)
		rep.Add(sig, diag, "c02", hx2(s))
	} else if valid {
		rep.Outcome("any:accepted")
	} else {
		rep.Outcome("any:rejected")
	}
}

// c02Structured renders payload p (without checksum) with every checksum
// variant and escape rendering.
func c02Structured(rep *vc.Report, eval func([]byte, string, bool), p []byte, hasBody bool) {
	right := ref.Xor(p)
	type ck struct {
		name string
		p    []byte
		c    byte
	}
	cks := []ck{{"right", p, right}, {"wrong", p, right ^ 1}}
	if hasBody {
		for _, target := range []byte{0x7D, 0x7E} {
			q := append([]byte(nil), p...)
			q[len(q)-1] ^= right ^ target
			cks = append(cks, ck{fmt.Sprintf("steered-%02x", target), q, target})
		}
	}
	for _, k := range cks {
		full := append(append([]byte(nil), k.p...), k.c)
		canon := ref.Escape(full)
		eval(canon, "struct-"+k.name+"-canonical", k.name != "wrong")
		// raw 7D as last payload byte (tolerated) - only meaningful when checksum is 7D
		if k.c == 0x7D {
			g := append([]byte(nil), canon[:len(canon)-3]...)
			g = append(g, 0x7D, 0x7E)
			eval(g, "struct-raw7d-last", true)
		}
		// raw 7D elsewhere / invalid pairs: corrupt the first escape pair
		if i := bytes.IndexByte(canon[1:len(canon)-2], 0x7D); i >= 0 {
			i++
			for _, second := range []byte{0x00, 0x03, 0x7D} {
				g := append([]byte(nil), canon...)
				g[i+1] = second
				eval(g, fmt.Sprintf("struct-pair-7d%02x", second), true)
			}
			g := append(append([]byte(nil), canon[:i+1]...), canon[i+2:]...) // drop the second byte of the pair
			eval(g, "struct-raw7d-inside", true)
		}
		// 7D right before the closing delimiter in addition to the checksum
		g := append(append([]byte(nil), canon[:len(canon)-1]...), 0x7D, 0x7E)
		eval(g, "struct-extra7d-end", true)
	}
}
