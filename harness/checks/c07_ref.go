package checks

import (
	"reflect"
	"sort"

	"github.com/cuteLittleDevil/go-jt808/protocol/model"
	"github.com/cuteLittleDevil/go-jt808/shared/consts"
	"verif/harness/ref"
)

// Reference encoders for C07: each case writes the body field by field in the
// order and with the types of the standard's table for that message
// (JT/T 808-2011/2013/2019, JT/T 1078-2016, Su-biao T/JSATL12-2017,
// Yue-biao). Length and count fields are taken from the lists and strings
// themselves, never from the value's own length fields. ok=false: no
// reference for this value (dialect without a reference, or a value that is
// outside the domain).

func c07Ref(sp *c07Spec, v c07Msg) (b *ref.Body07, ok bool) {
	b = &ref.Body07{}
	ok = true
	gbk := func(s string) []byte { // STRING: GBK
		g, k := ref.GBK07(s)
		if !k {
			ok = false
		}
		return g
	}
	fixed := func(name, s string, width int) { // BYTE[n], padded with 0x00
		if !b.Fixed(name, []byte(s), width) {
			ok = false
		}
	}
	tm := func(name, s string) {
		if !b.Time(name, s) {
			ok = false
		}
	}
	lstr := func(lenName, name, s string) { // length BYTE + STRING
		g := gbk(s)
		if len(g) > 255 {
			ok = false
		}
		b.U8(lenName, byte(len(g)))
		b.Raw(name, g)
	}
	loc := func(p string, l model.T0x0200LocationItem) { // JT/T 808-2013 table 23
		b.U32(p+"AlarmSign", l.AlarmSign)
		b.U32(p+"StatusSign", l.StatusSign)
		b.U32(p+"Latitude", l.Latitude)
		b.U32(p+"Longitude", l.Longitude)
		b.U16(p+"Altitude", l.Altitude)
		b.U16(p+"Speed", l.Speed)
		b.U16(p+"Direction", l.Direction)
		tm(p+"DateTime", l.DateTime)
	}
	sign := func(s model.P9208AlarmSign) { // alarm identification
		d := c07DialectOf(s.ActiveSafetyType)
		if d == nil || !d.hasRef || len(s.AlarmReserve) != d.reserve {
			ok = false
			return
		}
		fixed("P9208AlarmSign.TerminalID", s.TerminalID, d.idLen)
		tm("P9208AlarmSign.Time", s.Time)
		b.U8("P9208AlarmSign.SerialNumber", s.SerialNumber)
		b.U8("P9208AlarmSign.AttachNumber", s.AttachNumber)
		b.Raw("P9208AlarmSign.AlarmReserve", s.AlarmReserve)
	}
	params := func(d *model.TerminalParamDetails) { // parameter items, ascending ID
		type item struct {
			id uint32
			c  []byte
		}
		var items []item
		rv := reflect.ValueOf(d).Elem()
		for _, fi := range c07ParamField {
			f := rv.Field(fi)
			id := uint32(f.FieldByName("ID").Uint())
			if id == 0 {
				continue // parameter not present
			}
			val := f.FieldByName("Value")
			var c []byte
			switch ref.ParamKindOf07(id) {
			case ref.ParamDWORD07:
				if val.Kind() == reflect.String || val.Kind() == reflect.Array {
					ok = false
					continue
				}
				x := val.Uint()
				c = []byte{byte(x >> 24), byte(x >> 16), byte(x >> 8), byte(x)}
			case ref.ParamWORD07:
				if val.Kind() == reflect.String || val.Kind() == reflect.Array {
					ok = false
					continue
				}
				x := val.Uint()
				c = []byte{byte(x >> 8), byte(x)}
			case ref.ParamBYTE07:
				if val.Kind() == reflect.String || val.Kind() == reflect.Array {
					ok = false
					continue
				}
				c = []byte{byte(val.Uint())}
			case ref.ParamSTRING07:
				if val.Kind() != reflect.String {
					ok = false
					continue
				}
				c = gbk(val.String())
			case ref.ParamBYTES4_07, ref.ParamBYTES8_07:
				if val.Kind() != reflect.Array {
					ok = false
					continue
				}
				for i := 0; i < val.Len(); i++ {
					c = append(c, byte(val.Index(i).Uint()))
				}
			default:
				ok = false
				continue
			}
			items = append(items, item{id, c})
		}
		for id, c := range d.OtherContent {
			if c.ID != id {
				ok = false
			}
			items = append(items, item{id, c.Value})
		}
		sort.Slice(items, func(i, j int) bool { return items[i].id < items[j].id })
		for _, it := range items {
			if len(it.c) > 255 {
				ok = false
			}
			name := "param " + hx([]byte{byte(it.id >> 24), byte(it.id >> 16), byte(it.id >> 8), byte(it.id)})
			if len(it.c) == 0 { // one class whatever the ID
				name = "zero-length param"
			}
			b.Raw(name, ref.ParamItem07(it.id, it.c))
		}
		if len(items) > 255 {
			ok = false
		}
	}
	count := func(d *model.TerminalParamDetails) int {
		n := len(d.OtherContent)
		rv := reflect.ValueOf(d).Elem()
		for _, fi := range c07ParamField {
			if rv.Field(fi).FieldByName("ID").Uint() != 0 {
				n++
			}
		}
		return n
	}

	switch x := v.(type) {
	case *model.T0x0001: // 808 table 5
		b.U16("SerialNumber", x.SerialNumber)
		b.U16("ID", x.ID)
		b.U8("Result", x.Result)
	case *model.T0x0002, *model.P0x8104, *model.P0x9003: // empty bodies
	case *model.T0x0100: // 808-2011 table 6 / 808-2013 table 7 / 808-2019 table 8
		m, t, i := 5, 8, 7
		switch x.Version {
		case consts.JT808Protocol2011:
		case consts.JT808Protocol2013:
			t = 20
		case consts.JT808Protocol2019:
			m, t, i = 11, 30, 30
		default:
			ok = false
		}
		b.U16("ProvinceID", x.ProvinceID)
		b.U16("CityID", x.CityID)
		fixed("ManufacturerID", x.ManufacturerID, m)
		fixed("TerminalModel", x.TerminalModel, t)
		fixed("TerminalID", x.TerminalID, i)
		b.U8("PlateColor", x.PlateColor)
		b.Raw("LicensePlateNumber", gbk(x.LicensePlateNumber))
	case *model.T0x0102: // 808-2013 table 9 / 808-2019 table 10
		if x.Version == consts.JT808Protocol2019 {
			lstr("AuthCodeLen", "AuthCode", x.AuthCode)
			fixed("TerminalIMEI", x.TerminalIMEI, 15)
			fixed("SoftwareVersion", x.SoftwareVersion, 20)
		} else {
			if x.AuthCodeLen != 0 || x.TerminalIMEI != "" || x.SoftwareVersion != "" {
				ok = false
			}
			b.Raw("AuthCode", gbk(x.AuthCode))
		}
	case *model.T0x0104: // 808 table 17
		b.U16("RespondSerialNumber", x.RespondSerialNumber)
		b.U8("RespondParamCount", byte(count(&x.TerminalParamDetails)))
		params(&x.TerminalParamDetails)
	case *model.T0x0200: // base block only
		loc("", x.T0x0200LocationItem)
	case *model.T0x0704: // 808-2013 tables 76, 77
		b.U16("Num", uint16(len(x.Items)))
		b.U8("LocationType", x.LocationType)
		for k, it := range x.Items {
			p := "Items" + c07Idx(k) + "."
			b.U16(p+"Len", 28)
			loc(p, it.T0x0200LocationItem)
		}
		if len(x.Items) == 0 {
			ok = false
		}
	case *model.T0x0800: // 808 table 79
		b.U32("MultimediaID", x.MultimediaID)
		b.U8("MultimediaType", x.MultimediaType)
		b.U8("MultimediaFormatEncode", x.MultimediaFormatEncode)
		b.U8("EventItemEncode", x.EventItemEncode)
		b.U8("ChannelID", x.ChannelID)
	case *model.T0x0801: // 808-2013 table 80
		b.U32("MultimediaID", x.MultimediaID)
		b.U8("MultimediaType", x.MultimediaType)
		b.U8("MultimediaFormatEncode", x.MultimediaFormatEncode)
		b.U8("EventItemEncode", x.EventItemEncode)
		b.U8("ChannelID", x.ChannelID)
		loc("T0x0200LocationItem.", x.T0x0200LocationItem)
		b.Raw("MultimediaPackage", x.MultimediaPackage)
	case *model.T0x0805: // 808-2013 table 83
		b.U16("RespondSerialNumber", x.RespondSerialNumber)
		b.U8("Result", x.Result)
		b.U16("MultimediaIDNumber", uint16(len(x.MultimediaIDList)))
		for k, id := range x.MultimediaIDList {
			b.U32("MultimediaIDList"+c07Idx(k), id)
		}
	case *model.T0x1003: // 1078 table 11
		b.U8("EnterAudioEncoding", x.EnterAudioEncoding)
		b.U8("EnterAudioChannelsNumber", x.EnterAudioChannelsNumber)
		b.U8("EnterAudioSampleRate", x.EnterAudioSampleRate)
		b.U8("EnterAudioSampleDigits", x.EnterAudioSampleDigits)
		b.U16("AudioFrameLength", x.AudioFrameLength)
		b.U8("HasSupportedAudioOutput", x.HasSupportedAudioOutput)
		b.U8("VideoEncoding", x.VideoEncoding)
		b.U8("TerminalSupportedMaxNumberOfAudioPhysicalChannels", x.TerminalSupportedMaxNumberOfAudioPhysicalChannels)
		b.U8("TerminalSupportedMaxNumberOfVideoPhysicalChannels", x.TerminalSupportedMaxNumberOfVideoPhysicalChannels)
	case *model.T0x1005: // 1078 table 14
		tm("StartTime", x.StartTime)
		tm("EndTime", x.EndTime)
		b.U16("BoardNumber", x.BoardNumber)
		b.U16("AlightNumber", x.AlightNumber)
	case *model.T0x1205: // 1078 tables 26, 27
		b.U16("SerialNumber", x.SerialNumber)
		b.U32("AudioVideoResourceTotal", uint32(len(x.AudioVideoResourceList)))
		for k, r := range x.AudioVideoResourceList {
			p := "AudioVideoResourceList" + c07Idx(k) + "."
			b.U8(p+"ChannelNo", r.ChannelNo)
			tm(p+"StartTime", r.StartTime)
			tm(p+"EndTime", r.EndTime)
			b.U64(p+"AlarmFlag", r.AlarmFlag)
			b.U8(p+"AudioVideoResourceType", r.AudioVideoResourceType)
			b.U8(p+"StreamType", r.StreamType)
			b.U8(p+"MemoryType", r.MemoryType)
			b.U32(p+"FileSizeByte", r.FileSizeByte)
		}
	case *model.T0x1206: // 1078 table 31
		b.U16("RespondSerialNumber", x.RespondSerialNumber)
		b.U8("Result", x.Result)
	case *model.T0x1210: // Su-biao table 4-23 (Yue-biao: 30-byte IDs, 40-byte identification)
		d := c07DialectOf(x.ActiveSafetyType)
		if d == nil || !d.hasRef {
			return b, false
		}
		fixed("TerminalID", x.TerminalID, d.outerID)
		sign(x.P9208AlarmSign)
		fixed("AlarmID", x.AlarmID, 32)
		b.U8("InfoType", x.InfoType)
		b.U8("AttachCount", byte(len(x.T0x1210AlarmItemList)))
		for k, it := range x.T0x1210AlarmItemList {
			p := "T0x1210AlarmItemList" + c07Idx(k) + "."
			lstr(p+"FileNameLen", p+"FileName", it.FileName)
			b.U32(p+"FileSize", it.FileSize)
		}
	case *model.T0x1211: // Su-biao table 4-25
		lstr("FileNameLen", "FileName", x.FileName)
		b.U8("FileType", x.FileType)
		b.U32("FileSize", x.FileSize)
	case *model.P0x8001: // 808 table 4
		b.U16("RespondSerialNumber", x.RespondSerialNumber)
		b.U16("RespondID", x.RespondID)
		b.U8("Result", x.Result)
	case *model.P0x8003: // 808-2013 table 6
		b.U16("OriginalSerialNumber", x.OriginalSerialNumber)
		b.U8("AgainPackageCount", byte(len(x.AgainPackageList)))
		for k, id := range x.AgainPackageList {
			b.U16("AgainPackageList"+c07Idx(k), id)
		}
		if len(x.AgainPackageList) > 255 {
			ok = false
		}
	case *model.P0x8100: // 808 table 8
		b.U16("RespondSerialNumber", x.RespondSerialNumber)
		b.U8("Result", x.Result)
		b.Raw("AuthCode", gbk(x.AuthCode))
	case *model.P0x8103: // 808 tables 10, 11
		b.U8("ParamTotal", byte(count(&x.TerminalParamDetails)))
		params(&x.TerminalParamDetails)
	case *model.P0x8800: // 808-2013 table 81: no further fields once every packet has arrived
		b.U32("MultimediaID", x.MultimediaID)
		if len(x.AgainPackageList) > 0 {
			b.U8("AgainPackageCount", byte(len(x.AgainPackageList)))
			for k, id := range x.AgainPackageList {
				b.U16("AgainPackageList"+c07Idx(k), id)
			}
		}
		if len(x.AgainPackageList) > 255 {
			ok = false
		}
	case *model.P0x8801: // 808 table 82
		b.U8("ChannelID", x.ChannelID)
		b.U16("ShootCommand", x.ShootCommand)
		b.U16("PhotoIntervalOrVideoTime", x.PhotoIntervalOrVideoTime)
		b.U8("SaveFlag", x.SaveFlag)
		b.U8("Resolution", x.Resolution)
		b.U8("VideoQuality", x.VideoQuality)
		b.U8("Intensity", x.Intensity)
		b.U8("Contrast", x.Contrast)
		b.U8("Saturation", x.Saturation)
		b.U8("Chroma", x.Chroma)
	case *model.P0x9101: // 1078 table 17
		lstr("ServerIPLen", "ServerIPAddr", x.ServerIPAddr)
		b.U16("TcpPort", x.TcpPort)
		b.U16("UdpPort", x.UdpPort)
		b.U8("ChannelNo", x.ChannelNo)
		b.U8("DataType", x.DataType)
		b.U8("StreamType", x.StreamType)
	case *model.P0x9102: // 1078 table 18
		b.U8("ChannelNo", x.ChannelNo)
		b.U8("ControlCmd", x.ControlCmd)
		b.U8("CloseAudioVideoData", x.CloseAudioVideoData)
		b.U8("StreamType", x.StreamType)
	case *model.P0x9105: // 1078 table 21
		b.U8("ChannelNo", x.ChannelNo)
		b.U8("PackageLossRate", x.PackageLossRate)
	case *model.P0x9201: // 1078 table 24
		lstr("ServerIPLen", "ServerIPAddr", x.ServerIPAddr)
		b.U16("TcpPort", x.TcpPort)
		b.U16("UdpPort", x.UdpPort)
		b.U8("ChannelNo", x.ChannelNo)
		b.U8("MediaType", x.MediaType)
		b.U8("StreamType", x.StreamType)
		b.U8("MemoryType", x.MemoryType)
		b.U8("PlaybackWay", x.PlaybackWay)
		b.U8("PlaySpeed", x.PlaySpeed)
		tm("StartTime", x.StartTime)
		tm("EndTime", x.EndTime)
	case *model.P0x9202: // 1078 table 25
		b.U8("ChannelNo", x.ChannelNo)
		b.U8("PlayControl", x.PlayControl)
		b.U8("PlaySpeed", x.PlaySpeed)
		tm("DateTime", x.DateTime)
	case *model.P0x9205: // 1078 table 22
		b.U8("ChannelNo", x.ChannelNo)
		tm("StartTime", x.StartTime)
		tm("EndTime", x.EndTime)
		b.U64("AlarmFlag", x.AlarmFlag)
		b.U8("MediaType", x.MediaType)
		b.U8("StreamType", x.StreamType)
		b.U8("StorageType", x.StorageType)
	case *model.P0x9206: // 1078 table 28
		lstr("FTPAddrLen", "FTPAddr", x.FTPAddr)
		b.U16("Port", x.Port)
		lstr("UsernameLen", "Username", x.Username)
		lstr("PasswordLen", "Password", x.Password)
		lstr("FileUploadPathLen", "FileUploadPath", x.FileUploadPath)
		b.U8("ChannelNo", x.ChannelNo)
		tm("StartTime", x.StartTime)
		tm("EndTime", x.EndTime)
		b.U64("AlarmFlag", x.AlarmFlag)
		b.U8("MediaType", x.MediaType)
		b.U8("StreamType", x.StreamType)
		b.U8("MemoryPosition", x.MemoryPosition)
		b.U8("TaskExecuteCondition", x.TaskExecuteCondition)
	case *model.P0x9207: // 1078 table 30
		b.U16("RespondSerialNumber", x.RespondSerialNumber)
		b.U8("UploadControl", x.UploadControl)
	case *model.P0x9208: // Su-biao table 4-21
		d := c07DialectOf(x.ActiveSafetyType)
		if d == nil || !d.hasRef {
			return b, false
		}
		lstr("ServerIPLen", "ServerAddr", x.ServerAddr)
		b.U16("TcpPort", x.TcpPort)
		b.U16("UdpPort", x.UdpPort)
		sign(x.P9208AlarmSign)
		fixed("AlarmID", x.AlarmID, 32)
		if len(x.Reserve) != 16 {
			ok = false
		}
		b.Raw("Reserve", x.Reserve)
	case *model.P0x9212: // Su-biao tables 4-28, 4-29
		lstr("FileNameLen", "FileName", x.FileName)
		b.U8("FileType", x.FileType)
		b.U8("UploadResult", x.UploadResult)
		b.U8("RetransmitPacketNumber", byte(len(x.P0x9212RetransmitPacketList)))
		for k, r := range x.P0x9212RetransmitPacketList {
			p := "P0x9212RetransmitPacketList" + c07Idx(k) + "."
			b.U32(p+"DataOffset", r.DataOffset)
			b.U32(p+"DataLength", r.DataLength)
		}
	default:
		return b, false
	}
	return b, ok
}
