package checks

import (
	"encoding/binary"
	"fmt"
	"runtime"
	"unsafe"

	"github.com/cuteLittleDevil/go-jt808/protocol/jt808"
	"github.com/cuteLittleDevil/go-jt808/protocol/model"
	"github.com/cuteLittleDevil/go-jt808/shared/consts"
	"verif/harness/ref"
	"verif/harness/vc"
)

// Enumeration of C08.

type c08Runner struct {
	ctx  *vc.Ctx
	rep  *vc.Report
	idx  int64
	n    int64
	f, g []byte // clean filler locations for batches
	stop bool
}

func c08DefaultBase() ref.LocBase {
	return ref.LocBase{Latitude: 0x06EEB6AD, Longitude: 0x02633DF7, Altitude: 0x0138, Speed: 0x0003, Direction: 0x0063,
		Time: [6]byte{0x24, 0x10, 0x01, 0x23, 0x59, 0x59}}
}

// evalOne evaluates one carrier body; primary holds the signatures the same
// location produced through 0x0200 (the same defect is reported once).
func (r *c08Runner) evalOne(carrier string, body []byte, primary map[string]bool) map[string]bool {
	res := c08Eval(carrier, body)
	r.rep.Evaluations++
	if res.scope && res.class != "accepted:equal(partly-unclaimed)" {
		r.rep.Nontrivial++
	}
	r.rep.Outcome(carrier + ":" + res.class)
	if len(res.misses) == 0 {
		return nil
	}
	sigs := map[string]bool{}
	for _, m := range res.misses {
		sigs[m.sig] = true
		sig := m.sig
		if carrier != "0200" {
			if primary[sig] {
				continue
			}
			sig = "carrier=" + carrier + ":" + sig
		}
		if r.rep.Seen(sig) {
			continue
		}
		if carrier == "0200" {
			if mb, mres, mm, ok := c08Minimize(body, m.sig); ok {
				r.rep.Add(sig, mm.msg+"\n"+c08Diag("0200", mb, mres), "c08", c08Case{"0200", hx2(mb)})
				continue
			}
		}
		r.rep.Add(sig, m.msg+"\n"+c08Diag(carrier, body, res), "c08", c08Case{carrier, hx2(body)})
	}
	return sigs
}

// c08Minimize looks for a smaller 0x0200 body with the same signature: one
// item of the body alone behind an all-zero base block, with a canonical
// content if one reproduces the signature; for base-block signatures the
// block without items.
func c08Minimize(body []byte, sig string) ([]byte, c08Result, c08Miss, bool) {
	l, err := ref.SplitLoc(body)
	if err != nil {
		return nil, c08Result{}, c08Miss{}, false
	}
	try := func(cand []byte) (c08Result, c08Miss, bool) {
		res := c08Eval("0200", cand)
		for _, m := range res.misses {
			if m.sig == sig {
				return res, m, true
			}
		}
		return res, c08Miss{}, false
	}
	zero := make([]byte, ref.LocBaseLen)
	for _, it := range l.Items {
		orig := append(append([]byte(nil), zero...), it.Bytes()...)
		if _, _, ok := try(orig); !ok {
			continue
		}
		for _, kind := range []int{2, 4, 1, 3, 0} {
			cand := append(append([]byte(nil), zero...), ref.LocItem{ID: it.ID, Content: c08Fill(len(it.Content), kind)}.Bytes()...)
			if res, m, ok := try(cand); ok {
				return cand, res, m, true
			}
		}
		res, m, _ := try(orig)
		return orig, res, m, true
	}
	if len(l.Items) > 0 {
		cand := append([]byte(nil), body[:ref.LocBaseLen]...)
		if res, m, ok := try(cand); ok {
			return cand, res, m, true
		}
	}
	return nil, c08Result{}, c08Miss{}, false
}

func (r *c08Runner) halted() bool {
	if r.stop {
		return true
	}
	if r.rep.TooMany() {
		r.stop = true
		r.rep.Caps = append(r.rep.Caps, "40 distinct findings reached")
	} else if r.n++; r.n&255 == 0 && r.ctx.Expired() {
		r.stop = true
		r.rep.Truncated = true
	}
	return r.stop
}

// loc runs one location body through the carriers. wide: all batch shapes and
// (28-byte bodies) the 0x0801 embedding.
func (r *c08Runner) loc(l []byte, wide bool) {
	r.idx++
	if !r.ctx.Mine(r.idx) || r.halted() {
		return
	}
	prim := r.evalOne("0200", l, nil)
	r.evalOne("0704", ref.Build0704(byte(r.idx&1), l), prim)
	r.evalOne("0704", ref.Build0704(1, r.f, l), prim)
	if wide {
		r.evalOne("0704", ref.Build0704(0, l, r.f), prim)
		r.evalOne("0704", ref.Build0704(0, r.f, l, r.g), prim)
	}
	if len(l) == ref.LocBaseLen {
		r.evalOne("0801", ref.Build0801(1, 0, 0, 0, 1, l, nil), prim)
		if wide {
			r.evalOne("0801", ref.Build0801(0xFFFFFFFF, 2, 4, 5, 0xFF, l, []byte{0xFF, 0xD8, 0xFF}), prim)
			r.evalOne("0801", ref.Build0801(0x7D7E0102, 1, 2, 3, 0x7E, l, append([]byte{0x01, 0x04, 0, 0, 0, 9}, r.g...)), prim)
		}
	}
	if r.idx%40009 == 0 {
		r.rep.Sample(map[string]any{"location_body": hx(l)})
	}
}

func c08Join(base ref.LocBase, items ...ref.LocItem) []byte {
	b := base.Bytes()
	for _, it := range items {
		b = append(b, it.Bytes()...)
	}
	return b
}

func c08Fill(n int, kind int) []byte {
	c := make([]byte, n)
	for i := range c {
		switch kind {
		case 1:
			c[i] = 0xFF
		case 2:
			c[i] = byte(i + 1)
		}
	}
	if n > 0 {
		switch kind {
		case 3:
			c[0] = 0x80
		case 4:
			c[n-1] = 0x01
		}
	}
	return c
}

func c08U(v uint64, n int) []byte {
	c := make([]byte, n)
	for i := 0; i < n; i++ {
		c[n-1-i] = byte(v >> (8 * uint(i)))
	}
	return c
}

var c08Menu32 = []uint32{0, 1, 9, 0x7D, 0x7E, 0x01020304, 0xFFFFFFFE, 0xFFFFFFFF}
var c08Menu16 = []uint16{0, 1, 0x7D, 0x7E, 0x0102, 0xFFFE, 0xFFFF}

func c08Run(ctx *vc.Ctx, rep *vc.Report) {
	t := c08T()
	if ctx.Worker == 0 {
		for _, b := range t.broken {
			rep.Add("table:unresolved:"+b, "reference table row cannot be bound to a Go field: "+b, "c08", c08Case{"0200", ""})
		}
	}
	def := c08DefaultBase()
	mile := ref.LocItem{ID: 0x01, Content: []byte{0, 0, 0, 0x0B}}
	fb, gb := def, def
	fb.Alarm, fb.Status, fb.Latitude = 0x00000100, 0x00000003, 0x01000000
	gb.Alarm, gb.Status, gb.Speed = 0x80000000, 0x00400000, 0x0200
	r := &c08Runner{ctx: ctx, rep: rep, f: c08Join(fb, mile), g: c08Join(gb)}

	// ---------------------------------------------------------- A. base block
	baseCase := func(b ref.LocBase) {
		r.loc(b.Bytes(), true)
		r.loc(c08Join(b, mile), false) // the same block followed by an item
	}
	var words []uint32
	words = append(words, 0, 0xFFFFFFFF)
	for i := 0; i < 32; i++ {
		words = append(words, 1<<uint(i))
	}
	for i := 0; i < 32; i++ {
		for j := i + 1; j < 32; j++ {
			words = append(words, 1<<uint(i)|1<<uint(j))
		}
	}
	for _, other := range []uint32{0, 0xFFFFFFFF} {
		for _, w := range words {
			b := def
			b.Alarm, b.Status = w, other
			baseCase(b)
			b.Alarm, b.Status = other, w
			baseCase(b)
		}
	}
	for i := 0; i < 32; i++ {
		for j := 0; j < 32; j++ {
			b := def
			b.Alarm, b.Status = 1<<uint(i), 1<<uint(j)
			baseCase(b)
			b.Alarm, b.Status = ^uint32(1<<uint(i)), ^uint32(1<<uint(j))
			baseCase(b)
		}
	}
	// structured word families, each with the other word at 0 and all ones,
	// through all three carriers: every word with exactly 3 (thorough: 3 and 4)
	// bits set or cleared, every value of each 16-bit half with the other half
	// 0000 and FFFF
	var fam []uint32
	for i := 0; i < 32; i++ {
		for j := i + 1; j < 32; j++ {
			fam = append(fam, ^uint32(1<<uint(i)|1<<uint(j)))
			for k := j + 1; k < 32; k++ {
				w3 := uint32(1<<uint(i) | 1<<uint(j) | 1<<uint(k))
				fam = append(fam, w3, ^w3)
				if ctx.Thorough() {
					for l := k + 1; l < 32; l++ {
						fam = append(fam, w3|1<<uint(l), ^(w3 | 1<<uint(l)))
					}
				}
			}
		}
	}
	for v := uint32(0); v < 1<<16; v++ {
		fam = append(fam, v, 0xFFFF0000|v, v<<16, v<<16|0xFFFF)
	}
	for _, other := range []uint32{0, 0xFFFFFFFF} {
		for _, w := range fam {
			b := def
			b.Alarm, b.Status = w, other
			r.loc(b.Bytes(), false)
			b.Alarm, b.Status = other, w
			r.loc(b.Bytes(), false)
		}
		if r.halted() {
			return
		}
	}
	m32 := []uint32{0, 1, 0x7D, 0x7E, 0x01020304, 0xFFFFFFFE, 0xFFFFFFFF}
	for _, lat := range m32 {
		for _, lon := range m32 {
			for _, alt := range c08Menu16 {
				for _, sp := range c08Menu16 {
					for _, dir := range c08Menu16 {
						b := def
						b.Latitude, b.Longitude, b.Altitude, b.Speed, b.Direction = lat, lon, alt, sp, dir
						r.loc(b.Bytes(), true)
					}
				}
			}
		}
		if r.halted() {
			return
		}
	}
	setDigit := func(tm *[6]byte, pos int, d byte) {
		if pos%2 == 0 {
			tm[pos/2] = tm[pos/2]&0x0F | d<<4
		} else {
			tm[pos/2] = tm[pos/2]&0xF0 | d
		}
	}
	for _, baseT := range [][6]byte{{}, {0x99, 0x12, 0x31, 0x23, 0x59, 0x59}} {
		for pos := 0; pos < 12; pos++ {
			for d := byte(0); d < 16; d++ { // 10..15: no BCD reading, parsed for panics only
				b := def
				b.Time = baseT
				setDigit(&b.Time, pos, d)
				baseCase(b)
			}
		}
	}
	for p1 := 0; p1 < 12; p1++ {
		for p2 := p1 + 1; p2 < 12; p2++ {
			for d1 := byte(0); d1 < 10; d1++ {
				for d2 := byte(0); d2 < 10; d2++ {
					b := def
					b.Time = [6]byte{}
					setDigit(&b.Time, p1, d1)
					setDigit(&b.Time, p2, d2)
					r.loc(b.Bytes(), false)
				}
			}
		}
	}
	{
		b := def
		b.Time = [6]byte{0xFF, 0xFF, 0xFF, 0xFF, 0xFF, 0xFF}
		baseCase(b)
	}
	if r.halted() {
		return
	}

	// ---------------------------------------------------------- B. single items
	item := func(id byte, content []byte) {
		r.loc(c08Join(def, ref.LocItem{ID: id, Content: content}), true)
	}
	for _, sp := range ref.ItemSpecs {
		maxL := sp.Lens[len(sp.Lens)-1]
		var lens []int
		for n := 0; n <= maxL+2; n++ {
			if sp.ID == 0x05 && n > 2 && n < 28 {
				continue
			}
			lens = append(lens, n)
		}
		for _, n := range lens {
			for kind := 0; kind < 5; kind++ {
				if n == 0 && kind > 0 {
					break
				}
				item(sp.ID, c08Fill(n, kind))
			}
		}
	}
	for _, id := range []byte{0x02, 0x03, 0x04, 0x06, 0x2A} { // WORD items: all 2^16
		for v := 0; v < 1<<16; v++ {
			item(id, c08U(uint64(v), 2))
		}
		if r.halted() {
			return
		}
	}
	for _, id := range []byte{0x30, 0x31} { // BYTE items: all 2^8
		for v := 0; v < 256; v++ {
			item(id, []byte{byte(v)})
		}
	}
	for _, id := range []byte{0x01, 0x2B, 0x25} { // DWORD items
		for _, v := range c08Menu32 {
			item(id, c08U(uint64(v), 4))
		}
		for i := 0; i < 32; i++ {
			item(id, c08U(1<<uint(i), 4))
			item(id, c08U(uint64(^uint32(1<<uint(i))), 4))
			if id == 0x25 {
				for j := i + 1; j < 32; j++ {
					item(id, c08U(1<<uint(i)|1<<uint(j), 4))
				}
			}
		}
	}
	for _, hi := range []uint32{0, 0xFFFF0000} { // table 31: all 2^16 low halves
		for v := uint32(0); v < 1<<16; v++ {
			item(0x25, c08U(uint64(hi|v), 4))
		}
		if r.halted() {
			return
		}
	}
	for typ := 0; typ < 256; typ++ { // table 28
		item(0x11, []byte{byte(typ)})
		for _, id := range c08Menu32 {
			item(0x11, append([]byte{byte(typ)}, c08U(uint64(id), 4)...))
		}
	}
	for _, typ := range []byte{0, 1, 2, 3, 4, 0x7D, 0xFF} { // table 29
		for _, id := range c08Menu32 {
			for _, dir := range []byte{0, 1, 2, 0xFF} {
				item(0x12, append(append([]byte{typ}, c08U(uint64(id), 4)...), dir))
			}
		}
	}
	for _, id := range c08Menu32 { // table 30
		for _, tm := range c08Menu16 {
			for _, rs := range []byte{0, 1, 2, 0xFF} {
				item(0x13, append(append(c08U(uint64(id), 4), c08U(uint64(tm), 2)...), rs))
			}
		}
	}
	for pos := 0; pos < 30; pos++ { // tyres: each wheel position
		for _, v := range []byte{1, 0x80, 0xFF} {
			c := make([]byte, 30)
			c[pos] = v
			item(0x05, c)
			for i := range c {
				c[i] = 0xFF
			}
			c[pos] = v - 1
			item(0x05, c)
		}
	}
	for _, id := range []byte{0x07, 0x14, 0xE0, 0xFF} { // unknown IDs
		for n := 0; n <= 3; n++ {
			for kind := 0; kind < 3; kind++ {
				if n == 0 && kind > 0 {
					break
				}
				item(id, c08Fill(n, kind))
			}
		}
		item(id, c08Fill(255, 2))
	}
	if r.halted() {
		return
	}

	// ---------------------------------------------------------- C. sequences
	type mi struct {
		id byte
		n  int
	}
	var menu []mi
	for _, sp := range ref.ItemSpecs {
		for _, n := range sp.Lens {
			menu = append(menu, mi{sp.ID, n})
		}
		menu = append(menu, mi{sp.ID, sp.Lens[0] - 1}, mi{sp.ID, sp.Lens[len(sp.Lens)-1] + 1})
	}
	menu = append(menu, mi{0x07, 2}, mi{0xE0, 0}, mi{0xFF, 3})
	mk := func(m mi, pos int) ref.LocItem {
		c := make([]byte, m.n)
		for i := range c {
			c[i] = byte((pos+1)*0x11 + i)
		}
		if m.id == 0x11 && m.n >= 1 { // keep table 28 consistent with its own length
			c[0] = byte(pos + 1)
			if m.n == 1 {
				c[0] = 0
			}
		}
		return ref.LocItem{ID: m.id, Content: c}
	}
	maxSeq := 3
	if ctx.Thorough() {
		maxSeq = 4
	}
	if ctx.Worker == 0 {
		rep.Count("sequence_menu_size", int64(len(menu)))
	}
	seq := make([]ref.LocItem, 0, 4)
	var rec func()
	rec = func() {
		if len(seq) > 0 {
			r.loc(c08Join(def, seq...), false)
		}
		if len(seq) == maxSeq || r.halted() {
			return
		}
		for _, m := range menu {
			seq = append(seq, mk(m, len(seq)))
			rec()
			seq = seq[:len(seq)-1]
		}
	}
	rec()
	if r.halted() {
		return
	}

	// ---------------------------------------------------------- D. batches
	ones := def
	ones.Alarm, ones.Status = 0xFFFFFFFF, 0xFFFFFFFF
	other := ref.LocBase{Alarm: 0x00040000, Status: 0x00040000, Latitude: 1, Longitude: 0xFFFFFFFF, Altitude: 0x7D, Speed: 0x7E, Direction: 359, Time: [6]byte{0, 1, 1, 0, 0, 0}}
	lm := [][]byte{
		c08Join(def),
		c08Join(ones),
		c08Join(def, mile),
		c08Join(def, ref.LocItem{ID: 0x11, Content: []byte{0}}, ref.LocItem{ID: 0x30, Content: []byte{0x1F}}),
		c08Join(other, ref.LocItem{ID: 0xE0, Content: []byte{1, 2, 3}}),
		c08Join(def, ref.LocItem{ID: 0x02, Content: []byte{1}}), // inadmissible length
		c08Join(ones, ref.LocItem{ID: 0x25, Content: []byte{0, 0, 0x40, 0x01}}, ref.LocItem{ID: 0x2A, Content: []byte{0, 2}}),
		c08Join(other, ref.LocItem{ID: 0x12, Content: []byte{4, 0, 0, 1, 0, 1}}, ref.LocItem{ID: 0x13, Content: []byte{0, 0, 0, 7, 0x01, 0x2C, 1}}),
		c08Join(def, ref.LocItem{ID: 0x05, Content: c08Fill(30, 2)}),
	}
	// signatures each menu location shows alone through 0x0200 (a defect of
	// the shared decoder is reported once, not per carrier)
	lmPrim := map[string]bool{}
	for _, l := range lm {
		for _, m := range c08Eval("0200", l).misses {
			lmPrim[m.sig] = true
		}
	}
	var brec func(cur [][]byte)
	brec = func(cur [][]byte) {
		if len(cur) > 0 {
			for typ := byte(0); typ < 2; typ++ {
				r.idx++
				if r.ctx.Mine(r.idx) && !r.halted() {
					r.evalOne("0704", ref.Build0704(typ, cur...), lmPrim)
				}
			}
		}
		if len(cur) == 3 {
			return
		}
		for _, l := range lm {
			brec(append(append([][]byte(nil), cur...), l))
		}
	}
	brec(nil)
	if r.halted() {
		return
	}

	// ---------------------------------------------------------- E. all 2^32 words
	if ctx.Thorough() {
		// one pass through Parse costs 1.0-2.0 us per word on this class of
		// machine (the library formats both words with fmt.Sprintf), i.e. 4.5-9
		// minutes for 2^32 words on 16 workers: the budget allows one pass, so it
		// is the joint one that covers all 2^32 values of both words
		c08Sweep(ctx, rep, c08Pass{"0200", "joint", 0})
	}
}

// c08Pass is one exhaustive pass over a 32-bit word.
type c08Pass struct {
	carrier string
	word    string // alarm | status: that word takes all 2^32 values, the other one is fixed; joint: alarm=w, status=w*odd
	other   uint32
}

const c08Odd = 0x9E3779B1 // odd, so w -> w*c08Odd is a bijection on 32-bit words

// c08Sweep runs one pass over this worker's share of the 2^32 values. The
// loop does not allocate on its own account: one message, one body buffer and
// one model value are reused, flags are read through precomputed offsets.
func c08Sweep(ctx *vc.Ctx, rep *vc.Report, ps c08Pass) bool {
	t := c08T()
	// the loop is single-threaded; one P per worker process keeps 16 garbage
	// collectors from competing for the same cores (measured: 1.0 vs 1.8 us)
	defer runtime.GOMAXPROCS(runtime.GOMAXPROCS(1))
	lo := uint64(ctx.Worker) << 32 / uint64(ctx.NWorkers)
	hi := uint64(ctx.Worker+1) << 32 / uint64(ctx.NWorkers)
	def := c08DefaultBase()
	loc := def.Bytes()
	var body []byte
	off := 0
	switch ps.carrier {
	case "0200":
		body = exact(loc)
	case "0704":
		body, off = exact(ref.Build0704(0, loc)), 5
	case "0801":
		body, off = exact(ref.Build0801(7, 0, 0, 0, 1, loc, []byte{1, 2, 3})), 8
	}
	m := jt808.NewJTMessage()
	m.Header.ProtocolVersion = consts.JT808Protocol2013
	m.Body = body
	var t2 model.T0x0200
	var t7 model.T0x0704
	var t8 model.T0x0801
	var li *model.T0x0200LocationItem
	var err error
	parse := func() {
		switch ps.carrier {
		case "0200":
			t2 = model.T0x0200{}
			err = t2.Parse(m)
			li = &t2.T0x0200LocationItem
		case "0704":
			t7 = model.T0x0704{Items: t7.Items[:0]}
			err = t7.Parse(m)
			li = nil
			if len(t7.Items) == 1 {
				li = &t7.Items[0].T0x0200LocationItem
			}
		case "0801":
			t8 = model.T0x0801{}
			err = t8.Parse(m)
			li = &t8.T0x0200LocationItem
		}
	}
	w := lo
	var done int64
	slow := func() { // full oracle on the current body, records findings
		res := c08Eval(ps.carrier, body)
		for _, ms := range res.misses {
			sig := ms.sig
			if ps.carrier != "0200" {
				sig = "carrier=" + ps.carrier + ":" + sig
			}
			if !rep.Seen(sig) {
				rep.Add(sig, ms.msg+"\n"+c08Diag(ps.carrier, body, res), "c08", c08Case{ps.carrier, hx2(body)})
			}
		}
		if len(res.misses) == 0 {
			rep.Add("sweep:fast-path-disagrees:"+ps.carrier, "the tight loop saw a difference the full oracle does not see: "+hx(body), "c08", c08Case{ps.carrier, hx2(body)})
		}
	}
	chunk := func() {
		for ; w < hi; w++ {
			var a, s uint32
			switch ps.word {
			case "alarm":
				a, s = uint32(w), ps.other
			case "status":
				a, s = ps.other, uint32(w)
			default:
				a, s = uint32(w), uint32(w)*c08Odd
			}
			binary.BigEndian.PutUint32(body[off:], a)
			binary.BigEndian.PutUint32(body[off+4:], s)
			parse()
			done++
			ok := err == nil && li != nil && li.AlarmSign == a && li.StatusSign == s &&
				li.Latitude == def.Latitude && li.Longitude == def.Longitude && li.Altitude == def.Altitude && li.Speed == def.Speed && li.Direction == def.Direction &&
				len(li.DateTime) == 19
			if ok {
				pa := unsafe.Pointer(&li.AlarmSignDetails)
				for i := range t.alarm {
					f := &t.alarm[i]
					if c08FlagAt(pa, f.off) != (a>>uint(f.bit)&1 == 1) {
						ok = false
						break
					}
				}
				pst := unsafe.Pointer(&li.StatusSignDetails)
				for i := range t.status {
					f := &t.status[i]
					if c08FlagAt(pst, f.off) != (s>>uint(f.bit)&1 == 1) {
						ok = false
						break
					}
				}
			}
			if !ok {
				slow()
				if rep.TooMany() {
					w++
					return
				}
			}
			if w&0xFFFFF == 0xFFFFF && ctx.Expired() {
				w++
				rep.Truncated = true
				return
			}
		}
	}
	for w < hi && !rep.Truncated && !rep.TooMany() {
		if p := vc.Catch(chunk); p != "" {
			sig := fmt.Sprintf("panic:carrier=%s:%s:%s", ps.carrier, vc.PanicSite(p), vc.PanicClass(p))
			rep.Add(sig, "Parse panicked in the word sweep: "+p+" on "+hx(body), "c08", c08Case{ps.carrier, hx2(body)})
			w++
		}
	}
	rep.Evaluations += done
	rep.Nontrivial += done
	rep.Outcomes[ps.carrier+":sweep:"+ps.word] += done
	rep.Count("sweep_"+ps.carrier+"_"+ps.word+fmt.Sprintf("_other_%08x", ps.other), done)
	if rep.Truncated {
		rep.Caps = append(rep.Caps, "deadline during 2^32 sweep "+ps.carrier+"/"+ps.word)
	}
	return !rep.Truncated && !rep.TooMany()
}
