package checks

import (
	"bytes"
	"encoding/json"
	"errors"
	"fmt"
	"time"

	"github.com/cuteLittleDevil/go-jt808/service"
	"github.com/cuteLittleDevil/go-jt808/shared/consts"
	"verif/harness/ref"
	"verif/harness/vc"
	"verif/harness/vnet"
	"verif/harness/vs"
)

// ---- platform-command scenarios (C12, C13, C11, C18) ----

type termSpec struct {
	Phone     string `json:"phone"`
	V2019     bool   `json:"v2019,omitempty"`
	Behaviour string `json:"behaviour"` // inorder reverse second-only first-twice unknown-serial never late
	Expect    int    `json:"expect"`    // number of command frames the terminal waits for
	Noise     bool   `json:"noise,omitempty"`
	// CloseAt (C13): "" | before-join | after-join | after-seen:<k> (k commands written) | after-respond | reset-after-join
	CloseAt string `json:"close_at,omitempty"`
	PreHB   int    `json:"pre_heartbeats,omitempty"`       // extra heartbeats before the commands (moves the platform serial)
	PreHB2  int    `json:"pipelined_after_join,omitempty"` // requests sent without waiting once online (online-pipelined-* close points)
	// SilentJoin: the terminal's first message is a 0x0001 (handled, joins, gets no reply), so the first
	// platform frame on the connection - the first command - carries platform serial 0
	SilentJoin bool `json:"silent_join,omitempty"`
	// busy-writer scripts: once online the terminal sends a location report at once (LocNow) or LocAfterMs of virtual
	// time later (its reply's write callback is slow when the scenario sets SlowReplyMs), and, with CloseAfterMs,
	// hangs up that long afterwards
	LocNow       bool `json:"loc_now,omitempty"`
	LocAfterMs   int  `json:"loc_after_ms,omitempty"`
	CloseAfterMs int  `json:"close_after_ms,omitempty"`
}

type callSpec struct {
	Key       string `json:"key"`
	Cmd       uint16 `json:"cmd"`
	TimeoutMs int    `json:"timeout_ms"`
	NoWait    bool   `json:"no_wait,omitempty"` // do not wait for the key to be online
}

type cmdScn struct {
	Name  string     `json:"name"`
	Terms []termSpec `json:"terminals"`
	Calls []callSpec `json:"calls"`
	// SeqCalls: each list is performed by ONE caller thread, one call after the other, re-using a single
	// *ActiveMessage object (command, body and timeout are overwritten between calls, as a caller may do)
	SeqCalls   [][]callSpec `json:"sequential_calls,omitempty"`
	FailWrites bool         `json:"fail_writes,omitempty"`
	// FailWhenGone: writes to a terminal that has gone always fail (instead of failing as a 1-deviation choice)
	FailWhenGone bool `json:"fail_when_gone,omitempty"`
	Bound        int  `json:"bound,omitempty"`      // deviation bound override for this scenario (0 = the tier\'s bound)
	Disconnect   bool `json:"disconnect,omitempty"` // C13 oracle (callers may get any error)
	// SlowReplyMs: the user's OnWriteExecutionEvent callback takes this much virtual time for replies to location
	// reports (the connection's writer is busy meanwhile and its queues fill up)
	SlowReplyMs int `json:"slow_reply_ms,omitempty"`
	// HoldUntilOnline: schedules are explored only from the moment the (first) terminal is online; its preamble
	// (tens of thousands of heartbeats that move the platform serial to the wrap) runs under the default schedule
	HoldUntilOnline bool `json:"hold_until_online,omitempty"`
}

type cmdRun struct {
	scn   cmdScn
	w     *world
	terms []*termState
}

type termState struct {
	spec      termSpec
	peer      *vnet.Peer
	joined    bool
	answered  map[uint16]int // platform serial -> number of responses sent
	seen      []*ref.Frame   // command frames seen, in order
	late      bool
	closed    bool
	noiseSent int
}

//go:norace
func (t *termState) setJoined() { t.joined = true }

//go:norace
func (t *termState) isJoined() bool { return t.joined }

//go:norace
func (t *termState) markAnswered(s uint16) { t.answered[s]++ }

//go:norace
func (t *termState) saw(f *ref.Frame) { t.seen = append(t.seen, f) }

//go:norace
func (t *termState) setClosed() { t.closed = true }

//go:norace
func (t *termState) noise() { t.noiseSent++ }

type joinEventWaiter struct {
	w    *world
	conn int
}

//go:norace
func (j joinEventWaiter) Ready() bool {
	for _, e := range j.w.ev {
		if e.Kind == "join" && e.Conn == j.conn {
			return true
		}
	}
	return false
}

type joinedWaiter struct{ t *termState }

//go:norace
func (j joinedWaiter) Ready() bool { return j.t.joined || j.t.closed }

func cmdBody(cmd uint16) []byte {
	switch cmd {
	case 0x8103:
		return []byte{0x01, 0x00, 0x00, 0x00, 0x01, 0x04, 0x00, 0x00, 0x00, 0x0A}
	case 0x8104:
		return nil
	case 0x8801:
		return []byte{0x01, 0x00, 0x01, 0x00, 0x00, 0x00, 0x01, 0x05, 0x7E, 0x7D, 0x40, 0x40}
	case 0x9101:
		return append([]byte{0x09}, append([]byte("127.0.0.1"), 0x04, 0x4F, 0x00, 0x00, 0x01, 0x00, 0x00)...)
	case 0x9102:
		return []byte{0x01, 0x00, 0x00, 0x00}
	case 0x9205:
		return append([]byte{0x01}, append(bytes.Repeat([]byte{0}, 12), 0, 0, 0, 0, 0, 0, 0, 0, 0, 0, 0)...)
	case 0x9206:
		return []byte{0x01, 0x02, 0x03}
	}
	return []byte{0xAA}
}

// responseTo builds the terminal's answer to command frame f echoing serial.
func responseTo(f *ref.Frame, serial uint16, mySerial uint16) []byte {
	h := ref.Header{V2019: f.V2019, PhoneBCD: f.PhoneBCD, VersionNo: f.VersionNo, Serial: mySerial}
	var body []byte
	switch f.ID {
	case 0x8104:
		h.ID = 0x0104
		body = []byte{byte(serial >> 8), byte(serial), 0x00}
	case 0x8801:
		h.ID = 0x0805
		body = []byte{byte(serial >> 8), byte(serial), 0x00, 0x00, 0x01, 0x00, 0x00, 0x00, 0x07}
	case 0x9205:
		h.ID = 0x1205
		body = []byte{byte(serial >> 8), byte(serial), 0x00, 0x00, 0x00, 0x00}
	case 0x9206:
		h.ID = 0x1206
		body = []byte{byte(serial >> 8), byte(serial), 0x00}
	default:
		h.ID = 0x0001
		body = []byte{byte(serial >> 8), byte(serial), byte(f.ID >> 8), byte(f.ID), 0x00}
	}
	return ref.Encode(h, body)
}

func isCommandID(id uint16) bool {
	switch id {
	case 0x8001, 0x8100, 0x8003, 0x8800, 0x9212:
		return false
	}
	return id >= 0x8000
}

func cmdMake(scn cmdScn) func() (func(), any) {
	return func() (func(), any) {
		vnet.Reset()
		r := &cmdRun{scn: scn}
		body := func() {
			r.w = startWorld(worldOpts{slowReplyMs: scn.SlowReplyMs})
			for i := range scn.Terms {
				ts := &termState{spec: scn.Terms[i], answered: map[uint16]int{}}
				r.terms = append(r.terms, ts)
			}
			for i, ts := range r.terms {
				ts := ts
				vs.GoNamed(fmt.Sprintf("term%d", i), false, func() { r.runTerminal(ts) })
			}
			for li, list := range scn.SeqCalls {
				list := list
				var recs []*callRec
				for k, c := range list {
					cr := r.w.newCall(fmt.Sprintf("seqcaller%d.%d", li, k), c.Key, c.Cmd)
					cr.TimeoutMs = c.TimeoutMs
					recs = append(recs, cr)
				}
				var ts *termState
				for _, t := range r.terms {
					if len(list) > 0 && ref.PhoneString(ref.BCD(t.spec.Phone, 10)) == list[0].Key {
						ts = t
					}
				}
				vs.GoNamed(fmt.Sprintf("seqcaller%d", li), false, func() {
					if ts != nil {
						vs.Block(&vs.Op{Kind: "hwait-joined", W: joinedWaiter{ts}})
					}
					am := service.NewActiveMessage("", 0, nil, 0)
					for k, c := range list {
						am.Key, am.Command, am.Body, am.OverTimeDuration = c.Key, consts.JT808CommandType(c.Cmd), cmdBody(c.Cmd), time.Duration(c.TimeoutMs)*time.Millisecond
						recs[k].begin()
						m := r.w.srv.SendActiveMessage(am)
						var s snap
						if m != nil {
							s = takeSnap(m)
						}
						recs[k].end(m, s)
					}
				})
			}
			for i, c := range scn.Calls {
				c := c
				var ts *termState
				for _, t := range r.terms {
					if ref.PhoneString(ref.BCD(t.spec.Phone, 10)) == c.Key {
						ts = t
					}
				}
				cr := r.w.newCall(fmt.Sprintf("caller%d", i), c.Key, c.Cmd)
				cr.TimeoutMs = c.TimeoutMs
				vs.GoNamed(cr.Name, false, func() {
					if ts != nil && !c.NoWait {
						vs.Block(&vs.Op{Kind: "hwait-joined", W: joinedWaiter{ts}})
					}
					cr.begin()
					m := r.w.srv.SendActiveMessage(service.NewActiveMessage(c.Key, consts.JT808CommandType(c.Cmd), cmdBody(c.Cmd), time.Duration(c.TimeoutMs)*time.Millisecond))
					var s snap
					if m != nil {
						s = takeSnap(m)
					}
					cr.end(m, s)
				})
			}
		}
		return body, r
	}
}

func (r *cmdRun) runTerminal(ts *termState) {
	sp := ts.spec
	p := r.w.dial()
	ts.peer = p
	p.C.FailWrites = r.scn.FailWrites
	p.C.FailWhenGone = r.scn.FailWhenGone
	closeNow := func(reset bool) {
		ts.setClosed()
		if reset {
			p.Reset()
		} else {
			p.Close()
		}
	}
	if sp.CloseAt == "before-join" {
		closeNow(false)
		return
	}
	serial := uint16(100)
	next := func() uint16 { serial++; return serial }
	if sp.CloseAt == "pipelined-then-reset" || sp.CloseAt == "pipelined-then-close" {
		// several requests in flight, then the terminal disappears while their replies are pending
		if sp.LocNow {
			// the first reply's write callback is slow (SlowReplyMs): the requests behind it fill the reader->writer queue
			p.Send(ref.Encode(ref.TermHeader(0x0200, sp.V2019, sp.Phone, next()), ref.Loc28(0, 0)))
			ts.noise()
		}
		for i := 0; i <= sp.PreHB; i++ {
			p.Send(hbFrame(sp.V2019, sp.Phone, next()))
		}
		closeNow(sp.CloseAt == "pipelined-then-reset")
		return
	}
	nReplies := 1
	if sp.SilentJoin {
		p.Send(ref.Encode(ref.TermHeader(0x0001, sp.V2019, sp.Phone, next()), []byte{0x00, 0x00, 0x80, 0x01, 0x00}))
		vs.Block(&vs.Op{Kind: "hwait-join-event", W: joinEventWaiter{r.w, p.C.Index}})
		nReplies = 0
	} else {
		p.Send(hbFrame(sp.V2019, sp.Phone, next()))
	}
	for i := 0; i < sp.PreHB; i++ {
		p.Send(hbFrame(sp.V2019, sp.Phone, next()))
		nReplies++
	}
	p.Expect(nReplies) // reply to the heartbeat(s): the terminal is online now
	ts.setJoined()
	if r.scn.HoldUntilOnline {
		vs.BranchFromHere()
	}
	switch sp.CloseAt {
	case "after-join":
		closeNow(false)
		return
	case "reset-after-join":
		closeNow(true)
		return
	case "online-pipelined-then-reset", "online-pipelined-then-close":
		// online (callers may start), then several requests in flight and the terminal disappears: a command write can
		// fail while the reader still holds requests it has read but not yet handed to the writer
		for i := 0; i < sp.PreHB2; i++ {
			p.Send(hbFrame(sp.V2019, sp.Phone, next()))
		}
		closeNow(sp.CloseAt == "online-pipelined-then-reset")
		return
	}
	if sp.LocNow || sp.LocAfterMs > 0 {
		if sp.LocAfterMs > 0 {
			vs.SleepNanos(int64(sp.LocAfterMs)*1e6, "terminal:loc-after")
		}
		p.Send(ref.Encode(ref.TermHeader(0x0200, sp.V2019, sp.Phone, next()), ref.Loc28(0, 0)))
		ts.noise()
		if sp.CloseAfterMs > 0 {
			vs.SleepNanos(int64(sp.CloseAfterMs)*1e6, "terminal:close-after")
			closeNow(false)
			return
		}
	}
	if sp.Behaviour == "prompt" {
		// answer every command as soon as it has been written (needed when a caller sends sequentially)
		answeredN := 0
		n := nReplies
		for answeredN < sp.Expect {
			n++
			out := p.Expect(n)
			if p.C.Closed() && len(out) < n {
				return
			}
			k := 0
			for _, o := range out {
				if f, err := ref.Decode(o.Data); err == nil && isCommandID(f.ID) && !o.Failed {
					k++
					if k > answeredN {
						ts.saw(f)
						p.Send(responseTo(f, f.Serial, next()))
						ts.markAnswered(f.Serial)
						answeredN++
					}
				}
			}
		}
		return
	}
	// wait for the commands
	var cmds []*ref.Frame
	seenK := -1
	if len(sp.CloseAt) > 11 && sp.CloseAt[:11] == "after-seen:" {
		fmt.Sscanf(sp.CloseAt[11:], "%d", &seenK)
	}
	want := sp.Expect
	if seenK >= 0 {
		want = seenK
	}
	if want > 0 {
		n := nReplies
		for len(cmds) < want {
			n++
			out := p.Expect(n)
			if p.C.Closed() && len(out) < n {
				return
			}
			cmds = cmds[:0]
			for _, o := range out {
				if f, err := ref.Decode(o.Data); err == nil && isCommandID(f.ID) && !o.Failed {
					cmds = append(cmds, f)
				}
			}
		}
	}
	for _, c := range cmds {
		ts.saw(c)
	}
	if seenK >= 0 {
		closeNow(false)
		return
	}
	if sp.Noise {
		p.Send(hbFrame(sp.V2019, sp.Phone, next()))
		ts.noise()
	}
	answer := func(c *ref.Frame, echo uint16) {
		p.Send(responseTo(c, echo, next()))
		if echo == c.Serial {
			ts.markAnswered(c.Serial)
		}
	}
	switch sp.Behaviour {
	case "inorder":
		for _, c := range cmds {
			answer(c, c.Serial)
		}
	case "reverse":
		for i := len(cmds) - 1; i >= 0; i-- {
			answer(cmds[i], cmds[i].Serial)
		}
	case "second-only":
		if len(cmds) >= 2 {
			answer(cmds[1], cmds[1].Serial)
		}
	case "first-twice":
		if len(cmds) >= 1 {
			answer(cmds[0], cmds[0].Serial)
			answer(cmds[0], cmds[0].Serial)
		}
		for _, c := range cmds[min(1, len(cmds)):] {
			answer(c, c.Serial)
		}
	case "unknown-serial":
		for _, c := range cmds {
			answer(c, c.Serial+1000)
		}
	case "late":
		// answer only after every caller has returned (i.e. after the timers fired)
		vs.Block(&vs.Op{Kind: "hwait-callers", W: callersDone{r}})
		ts.late = true
		for _, c := range cmds {
			p.Send(responseTo(c, c.Serial, next()))
		}
	case "never":
	}
	if sp.Noise {
		p.Send(ref.Encode(ref.TermHeader(0x0200, sp.V2019, sp.Phone, next()), ref.Loc28(0, 0)))
		ts.noise()
	}
	if sp.CloseAt == "after-respond" {
		closeNow(false)
	}
}

type callersDone struct{ r *cmdRun }

//go:norace
func (c callersDone) Ready() bool {
	for _, x := range c.r.w.calls {
		if !x.Done {
			return false
		}
	}
	return true
}

// cmdCheck is the oracle of C12 (and, with scn.Disconnect, of C13).
func cmdCheck(res *vs.Result, user any) []vs.Violation {
	r := user.(*cmdRun)
	allow := func(b vs.Blocked) bool {
		if serverIdle(b) {
			return true
		}
		// a terminal script waiting for frames that the server is not obliged to write
		return len(b.Thread) >= 4 && b.Thread[:4] == "term"
	}
	out := baseViolations(res, allow)
	if res.Panic != nil {
		return out
	}
	// stranded callers are reported by baseViolations (caller threads are not daemons)
	if len(out) > 0 {
		return out
	}
	add := func(sig, msg string) { out = append(out, vs.Violation{Sig: sig, Msg: msg}) }
	// frames per terminal
	type sent struct {
		f    *ref.Frame
		term int
	}
	var cmdFrames []sent
	for ti, ts := range r.terms {
		if ts.peer == nil {
			continue
		}
		for _, o := range ts.peer.C.Out {
			f, err := ref.Decode(o.Data)
			if err != nil {
				add("frame-undecodable", fmt.Sprintf("terminal %d was sent an invalid frame (%v): %s", ti, err, hx(o.Data)))
				continue
			}
			if isCommandID(f.ID) {
				cmdFrames = append(cmdFrames, sent{f, ti})
			}
		}
	}
	usedSerial := map[string]int{}
	for _, c := range r.w.calls {
		if !c.Done {
			add("caller-not-returned", fmt.Sprintf("%s never returned", c.Name))
			continue
		}
		if c.Reply == nil {
			add("caller-nil", fmt.Sprintf("%s returned nil", c.Name))
			continue
		}
		var ti = -1
		for i, ts := range r.terms {
			if ref.PhoneString(ref.BCD(ts.spec.Phone, 10)) == c.Key {
				ti = i
			}
		}
		err := c.Reply.ExtensionFields.Err
		if ti < 0 {
			if !errors.Is(err, service.ErrNotExistKey) {
				add("absent-key", fmt.Sprintf("%s: command for a key that is not online returned %v, want ErrNotExistKey", c.Name, err))
			} else if c.TimeoutMs > 0 && res.TimerEarly == 0 && c.ClockDone-c.ClockStart >= int64(c.TimeoutMs)*1e6 {
				// "at once": the refusal must not be the product of waiting out the command's own timeout. Judged only in
				// executions where no timer fired while another thread could run: there the virtual clock moves only when
				// everything waits, so a refusal that needs no waiting takes no virtual time (with an early timer - an
				// unrelated command's timeout, say - the clock jumps although nobody waited for it)
				add("absent-key-not-at-once", fmt.Sprintf("%s: command for a key that is not online returned ErrNotExistKey only after %d ms of virtual time (its timeout is %d ms)", c.Name, (c.ClockDone-c.ClockStart)/1e6, c.TimeoutMs))
			}
			continue
		}
		if errors.Is(err, service.ErrNotExistKey) {
			if !r.scn.Disconnect {
				add("online-key-not-exist", fmt.Sprintf("%s: terminal %s was online but the command returned %v", c.Name, c.Key, err))
			}
			continue
		}
		// the frame this caller's command was written as
		pf, perr := ref.Decode(c.Snap.PlatData)
		if perr != nil {
			if r.scn.Disconnect && err != nil {
				continue
			}
			add("caller-frame", fmt.Sprintf("%s: result carries no valid command frame (%v) err=%v", c.Name, perr, err))
			continue
		}
		if pf.ID != c.Cmd || !bytes.Equal(pf.Body, cmdBody(c.Cmd)) || pf.Serial != c.Snap.PlatSeq {
			add("caller-frame-mismatch", fmt.Sprintf("%s sent %04x, result describes frame %04x serial %d/%d body %s", c.Name, c.Cmd, pf.ID, pf.Serial, c.Snap.PlatSeq, hx(pf.Body)))
			continue
		}
		k := fmt.Sprintf("%d/%d", ti, pf.Serial)
		usedSerial[k]++
		if usedSerial[k] > 1 {
			add("serial-shared", fmt.Sprintf("two callers were given the same platform serial %d on terminal %d", pf.Serial, ti))
		}
		n := 0
		for _, s := range cmdFrames {
			if s.term == ti && s.f.Serial == pf.Serial && s.f.ID == pf.ID {
				n++
			}
			if s.term != ti && bytes.Equal(s.f.PhoneBCD, pf.PhoneBCD) && s.f.Serial == pf.Serial && s.f.ID == pf.ID && len(r.terms) > 1 && r.terms[s.term].spec.Phone == r.terms[ti].spec.Phone {
				n++
			}
		}
		writeFailed := errors.Is(err, service.ErrWriteDataFail)
		if n != 1 && !(writeFailed && n == 0) && !(r.scn.Disconnect && n == 0) {
			add("command-written-times", fmt.Sprintf("%s: its command frame (serial %d) appears %d times on the terminal's socket, want exactly once", c.Name, pf.Serial, n))
		}
		ts := r.terms[ti]
		switch {
		case err == nil:
			// must be the terminal's response echoing this caller's serial
			if !c.Snap.HasJT || len(c.Snap.Body) < 2 {
				add("response-shape", fmt.Sprintf("%s returned success without a response message", c.Name))
				break
			}
			echo := uint16(c.Snap.Body[0])<<8 | uint16(c.Snap.Body[1])
			if echo != pf.Serial {
				add("wrong-response", fmt.Sprintf("%s (command serial %d) received the response that echoes serial %d", c.Name, pf.Serial, echo))
			}
			if ts.answered[pf.Serial] == 0 && !ts.late {
				add("phantom-response", fmt.Sprintf("%s got a response although the terminal never answered serial %d", c.Name, pf.Serial))
			}
		case errors.Is(err, service.ErrWriteDataOverTime) && c.TimeoutMs > 0 && c.ClockDone-c.ClockStart < int64(c.TimeoutMs)*1e6:
			add("timeout-too-early", fmt.Sprintf("%s (command serial %d, timeout %d ms) was given a timeout after only %d ms of virtual time: a timer that is not its own completed it", c.Name, pf.Serial, c.TimeoutMs, (c.ClockDone-c.ClockStart)/1e6))
		case errors.Is(err, service.ErrWriteDataOverTime):
			// a timeout is always admissible when timers may fire at any moment, except in
			// executions where no timer ran ahead of a runnable thread: then an answered command must see its answer
			if res.TimerEarly == 0 && ts.answered[pf.Serial] > 0 && !r.scn.Disconnect {
				add("timeout-despite-response", fmt.Sprintf("%s timed out although the terminal answered serial %d and no timer fired early", c.Name, pf.Serial))
			}
		case writeFailed:
			if !r.scn.FailWrites && !r.scn.Disconnect {
				add("write-fail-unexpected", fmt.Sprintf("%s: %v", c.Name, err))
			}
		default:
			add("caller-error", fmt.Sprintf("%s returned unexpected error %v", c.Name, err))
		}
	}
	if r.scn.Disconnect {
		return out
	}
	// noise (heartbeat / location) is still answered: count general responses per terminal
	for ti, ts := range r.terms {
		if ts.peer == nil {
			continue
		}
		gen := 0
		for _, o := range ts.peer.C.Out {
			if f, err := ref.Decode(o.Data); err == nil && f.ID == 0x8001 {
				gen++
			}
		}
		want := 1 + ts.spec.PreHB + ts.noiseSent
		if ts.spec.SilentJoin {
			want--
		}
		if gen != want {
			add("noise-replies", fmt.Sprintf("terminal %d sent %d heartbeat/location messages and got %d general responses", ti, want, gen))
		}
		// consecutive platform serials on the socket
		for i, o := range ts.peer.C.Out {
			if f, err := ref.Decode(o.Data); err == nil && f.Serial != uint16(i) {
				add("platform-serial", fmt.Sprintf("terminal %d: frame %d carries platform serial %d", ti, i, f.Serial))
				break
			}
		}
	}
	return out
}

// callerOutcomes summarises what the callers of one execution got (evidence:
// guards against vacuous exploration).
func callerOutcomes(r *cmdRun) string {
	s := ""
	for _, c := range r.w.calls {
		switch {
		case !c.Done:
			s += "S" // stranded
		case c.Reply == nil:
			s += "0"
		case c.Reply.ExtensionFields.Err == nil:
			s += "R" // response
		case errors.Is(c.Reply.ExtensionFields.Err, service.ErrWriteDataOverTime):
			s += "T"
		case errors.Is(c.Reply.ExtensionFields.Err, service.ErrNotExistKey):
			s += "N"
		case errors.Is(c.Reply.ExtensionFields.Err, service.ErrWriteDataFail):
			s += "W"
		default:
			s += "E"
		}
	}
	return s
}

type cmdCase struct {
	Scn     cmdScn `json:"scenario"`
	Choices []int  `json:"choices"`
}

func cmdReplay(raw json.RawMessage) string {
	var c cmdCase
	if err := json.Unmarshal(raw, &c); err != nil {
		return "bad case: " + err.Error()
	}
	x := &vs.Explorer{Name: c.Scn.Name, Make: cmdMake(c.Scn), Check: cmdCheck, HoldBranching: c.Scn.HoldUntilOnline}
	if c.Scn.HoldUntilOnline {
		x.Horizon = 5000000
	}
	res, user, _ := x.RunOnce(c.Choices, nil, true)
	vl := cmdCheck(res, user)
	if len(vl) == 0 {
		return ""
	}
	s := ""
	for _, v := range vl {
		s += v.Sig + ": " + v.Msg + "\n"
	}
	s += fmt.Sprintf("schedule (%d steps):", len(res.Trace))
	for i, st := range res.Trace {
		if i > 400 {
			s += " ..."
			break
		}
		s += fmt.Sprintf(" %d:%s/%d", st.Thread, st.Kind, st.Obj)
	}
	return s
}

func exploreCmd(ctx *vc.Ctx, rep *vc.Report, scn cmdScn, bound int) {
	if scn.Bound > 0 {
		bound = scn.Bound
	}
	check := func(res *vs.Result, user any) []vs.Violation {
		v := cmdCheck(res, user)
		rep.Outcome("callers:" + callerOutcomes(user.(*cmdRun)))
		return v
	}
	x := &vs.Explorer{Name: scn.Name, Bound: bound, Make: cmdMake(scn), Check: check, KeepKeys: !scn.HoldUntilOnline,
		Deadline: ctx.Deadline, Shard: ctx.Worker, NShards: ctx.NWorkers, HoldBranching: scn.HoldUntilOnline}
	if scn.HoldUntilOnline {
		x.Horizon = 5000000
	}
	if bound >= 2 {
		x.ShardLvl = 2
	}
	x.Explore()
	mergeStats(rep, x, bound, "cmd", func(f vs.Found) any { return cmdCase{scn, f.Choices} })
}

func mergeStats(rep *vc.Report, x *vs.Explorer, bound int, driver string, mk func(vs.Found) any) {
	st := x.Stats
	rep.Evaluations += st.Executions
	rep.Transitions += st.Transitions
	rep.States += int64(len(st.States))
	rep.TracesValidated += st.Executions
	rep.Nontrivial += st.Nontrivial
	if st.Truncated {
		rep.Truncated = true
		rep.Caps = append(rep.Caps, fmt.Sprintf("deadline hit in scenario %s at bound %d", x.Name, bound))
	}
	if st.StatesCapped {
		rep.Caps = append(rep.Caps, "state-key set capped (states under-counted)")
	}
	if st.Nondet != "" {
		rep.Nondet = st.Nondet
	}
	if bound > rep.Bound {
		rep.Bound = bound
	}
	for i := range st.ByCost {
		if st.ByCost[i] > 0 {
			rep.Count(fmt.Sprintf("executions_with_%d_deviations", i), st.ByCost[i])
		}
	}
	rep.Count("distinct_traces", int64(len(st.Outcomes)))
	for _, f := range x.Found {
		rep.Outcome("fail:" + f.Sig)
		rep.Add(f.Sig, fmt.Sprintf("scenario %s, %d deviation(s): %s", x.Name, f.Cost, f.Msg), driver, mk(f))
	}
	if len(x.Found) == 0 {
		rep.Outcome("ok:" + scnClass(x.Name))
	}
}
