package checks

import (
	"fmt"
	"sort"
	"strings"
	"time"

	"github.com/cuteLittleDevil/go-jt808/protocol/model"
	"github.com/cuteLittleDevil/go-jt808/service"
	"github.com/cuteLittleDevil/go-jt808/shared/consts"
	"verif/harness/ref"
	"verif/harness/vc"
	"verif/harness/vnet"
	"verif/harness/vs"
)

// ---- E1 scenario infrastructure: the real server (service.New + Run over the
// virtual listener) with recording handlers, scripted terminals and callers.

const srvAddr = "127.0.0.1:808"

type snap struct {
	ID, Serial, SubSum, SubNo uint16
	Phone                     string
	Version                   int
	Body, TermData, PlatData  []byte
	Command, PlatCommand      uint16
	PlatSeq, TermSeq          uint16
	ActiveSend, Complete      bool
	Err                       string
	HasJT                     bool
}

// takeSnap reads the message the way a user's handler would (these reads are
// deliberately visible to the race detector).
func takeSnap(m *service.Message) snap {
	s := snap{Command: uint16(m.Command), PlatCommand: uint16(m.ExtensionFields.PlatformCommand),
		PlatSeq: m.ExtensionFields.PlatformSeq, TermSeq: m.ExtensionFields.TerminalSeq,
		ActiveSend: m.ExtensionFields.ActiveSend, Complete: m.ExtensionFields.SubcontractComplete}
	s.TermData = append([]byte(nil), m.ExtensionFields.TerminalData...)
	s.PlatData = append([]byte(nil), m.ExtensionFields.PlatformData...)
	if m.ExtensionFields.Err != nil {
		s.Err = m.ExtensionFields.Err.Error()
	}
	if m.JTMessage != nil && m.JTMessage.Header != nil {
		h := m.JTMessage.Header
		s.HasJT = true
		s.ID, s.Serial, s.SubSum, s.SubNo, s.Phone, s.Version = h.ID, h.SerialNumber, h.SubPackageSum, h.SubPackageNo, h.TerminalPhoneNo, int(h.ProtocolVersion)
		s.Body = append([]byte(nil), m.JTMessage.Body...)
	}
	return s
}

func (a snap) diff(b snap) string {
	var d []string
	cmp := func(n string, x, y any) {
		if fmt.Sprint(x) != fmt.Sprint(y) {
			d = append(d, fmt.Sprintf("%s: %v -> %v", n, x, y))
		}
	}
	cmp("ID", a.ID, b.ID)
	cmp("Serial", a.Serial, b.Serial)
	cmp("SubSum", a.SubSum, b.SubSum)
	cmp("SubNo", a.SubNo, b.SubNo)
	cmp("Phone", a.Phone, b.Phone)
	cmp("Body", hx(a.Body), hx(b.Body))
	cmp("TerminalData", hx(a.TermData), hx(b.TermData))
	return strings.Join(d, "; ")
}

type event struct {
	Seq    int
	Step   int
	Thread string
	Kind   string // hread hwrite tread twrite join leave unsupported
	Conn   int
	Msg    *service.Message
	Snap   snap
	Key    string
	Err    error
}

type callRec struct {
	Name       string
	Key        string
	Cmd        uint16
	Started    bool
	Done       bool
	Reply      *service.Message
	Snap       snap
	StepStart  int
	StepDone   int
	ClockStart int64 // virtual nanoseconds
	ClockDone  int64
	TimeoutMs  int
}

type world struct {
	srv     *service.GoJT808
	ev      []event
	nEvt    int
	nHnd    int
	parse   bool // handlers parse the body and render String() (README pattern)
	calls   []*callRec
	peers   []*vnet.Peer
	notes   []string
	stab    bool     // compare every kept message with its snapshot at every later callback
	mutated []string // what changed, when (first report per message)
	mutSeen map[int]bool
	// slowReplyMs: see worldOpts
	slowReplyMs int
}

// checkStable compares each message kept from an earlier read callback with
// the snapshot taken then.
//
//go:norace
func (w *world) checkStable(at string) {
	for _, e := range w.ev {
		if e.Msg == nil || (e.Kind != "hread" && e.Kind != "tread" && e.Kind != "unsupported" && e.Kind != "join") {
			continue
		}
		if w.mutSeen[e.Seq] {
			continue
		}
		if d := e.Snap.diff(takeSnap(e.Msg)); d != "" {
			if w.mutSeen == nil {
				w.mutSeen = map[int]bool{}
			}
			w.mutSeen[e.Seq] = true
			w.mutated = append(w.mutated, fmt.Sprintf("message %04x #%d delivered at step %d changed by the time of %s (step %d): %s", e.Snap.ID, e.Snap.Serial, e.Step, at, vs.StepNow(), d))
		}
	}
}

//go:norace
func (w *world) add(e event) {
	// a user callback is an observable event: it gets its own scheduling point, so that another thread can act between
	// the library's previous synchronisation step and the moment the user is told (e.g. a reply written before the read
	// callback of its request runs)
	if vs.Active() {
		vs.Yield("callback", 0)
	}
	if w.stab {
		w.checkStable(e.Kind)
	}
	e.Seq = len(w.ev)
	e.Step = vs.StepNow()
	if t := vs.Self(); t != nil {
		e.Thread = t.Name
	}
	w.ev = append(w.ev, e)
}

//go:norace
func (w *world) note(s string) { w.notes = append(w.notes, s) }

type recHandler struct {
	service.JT808Handler
	w    *world
	conn int
}

func (h *recHandler) OnReadExecutionEvent(msg *service.Message) {
	s := takeSnap(msg)
	if h.w.parse {
		if err := h.JT808Handler.Parse(msg.JTMessage); err == nil {
			if st, ok := h.JT808Handler.(fmt.Stringer); ok {
				_ = st.String()
			}
		}
	}
	h.w.add(event{Kind: "hread", Conn: h.conn, Msg: msg, Snap: s})
}

func (h *recHandler) OnWriteExecutionEvent(msg service.Message) {
	s := takeSnap(&msg)
	h.w.add(event{Kind: "hwrite", Conn: h.conn, Snap: s})
}

type recEventer struct {
	w    *world
	conn int
}

func (r *recEventer) OnJoinEvent(msg *service.Message, key string, err error) {
	e := event{Kind: "join", Conn: r.conn, Msg: msg, Key: key, Err: err}
	if msg != nil {
		e.Snap = takeSnap(msg)
	}
	r.w.add(e)
}
func (r *recEventer) OnLeaveEvent(key string) { r.w.add(event{Kind: "leave", Conn: r.conn, Key: key}) }
func (r *recEventer) OnNotSupportedEvent(msg *service.Message) {
	r.w.add(event{Kind: "unsupported", Conn: r.conn, Msg: msg, Snap: takeSnap(msg)})
}
func (r *recEventer) OnReadExecutionEvent(msg *service.Message) {
	r.w.add(event{Kind: "tread", Conn: r.conn, Msg: msg, Snap: takeSnap(msg)})
}
func (r *recEventer) OnWriteExecutionEvent(msg service.Message) {
	r.w.add(event{Kind: "twrite", Conn: r.conn, Snap: takeSnap(&msg)})
	if r.w.slowReplyMs > 0 && !msg.ExtensionFields.ActiveSend && msg.JTMessage != nil && msg.JTMessage.Header != nil && msg.JTMessage.Header.ID == 0x0200 {
		vs.SleepNanos(int64(r.w.slowReplyMs)*1e6, "user-callback:slow-write-event")
	}
}

// defaultModels mirrors the set of IDs the server registers by default; the
// recording handlers wrap a fresh model value per connection exactly like the
// server's own default handler does, and add nothing but recording.
func defaultModels() map[consts.JT808CommandType]func() service.JT808Handler {
	return map[consts.JT808CommandType]func() service.JT808Handler{
		consts.T0001GeneralRespond:               func() service.JT808Handler { return &model.T0x0001{} },
		consts.T0100Register:                     func() service.JT808Handler { return &model.T0x0100{} },
		consts.T0102RegisterAuth:                 func() service.JT808Handler { return &model.T0x0102{} },
		consts.T0002HeartBeat:                    func() service.JT808Handler { return &model.T0x0002{} },
		consts.T0200LocationReport:               func() service.JT808Handler { return &model.T0x0200{} },
		consts.T0704LocationBatchUpload:          func() service.JT808Handler { return &model.T0x0704{} },
		consts.T0104QueryParameter:               func() service.JT808Handler { return &model.T0x0104{} },
		consts.T0805CameraShootImmediately:       func() service.JT808Handler { return &model.T0x0805{} },
		consts.T0800MultimediaEventInfoUpload:    func() service.JT808Handler { return &model.T0x0800{} },
		consts.T0801MultimediaDataUpload:         func() service.JT808Handler { return &model.T0x0801{} },
		consts.T1003UploadAudioVideoAttr:         func() service.JT808Handler { return &model.T0x1003{} },
		consts.T1005UploadPassengerFlow:          func() service.JT808Handler { return &model.T0x1005{} },
		consts.T1205UploadAudioVideoResourceList: func() service.JT808Handler { return &model.T0x1205{} },
		consts.T1206FileUploadCompleteNotice:     func() service.JT808Handler { return &model.T0x1206{} },
		consts.T1210AlarmAttachInfoMessage:       func() service.JT808Handler { return &model.T0x1210{} },
		consts.T1211FileInfoUpload:               func() service.JT808Handler { return &model.T0x1211{} },
		consts.T1212FileUploadComplete:           func() service.JT808Handler { return &model.T0x1212{} },
		// platform-originated IDs the server also registers by default (a terminal may send them)
		consts.P8003ReissueSubcontractingRequest:      func() service.JT808Handler { return &model.P0x8003{} },
		consts.P8103SetTerminalParams:                 func() service.JT808Handler { return &model.P0x8103{} },
		consts.P8104QueryTerminalParams:               func() service.JT808Handler { return &model.P0x8104{} },
		consts.P8801CameraShootImmediateCommand:       func() service.JT808Handler { return &model.P0x8801{} },
		consts.P9003QueryTerminalAudioVideoProperties: func() service.JT808Handler { return &model.P0x9003{} },
		consts.P9101RealTimeAudioVideoRequest:         func() service.JT808Handler { return &model.P0x9101{} },
		consts.P9102AudioVideoControl:                 func() service.JT808Handler { return &model.P0x9102{} },
		consts.P9205QueryResourceList:                 func() service.JT808Handler { return &model.P0x9205{} },
		consts.P9206FileUploadInstructions:            func() service.JT808Handler { return &model.P0x9206{} },
		consts.P9207FileUploadControl:                 func() service.JT808Handler { return &model.P0x9207{} },
		consts.P9208AlarmAttachUpload:                 func() service.JT808Handler { return &model.P0x9208{} },
	}
}

type worldOpts struct {
	stab     bool
	parse    bool
	noRecord bool // plain default configuration (no custom handlers / eventer)
	filter   *bool
	// slowReplyMs: OnWriteExecutionEvent takes this much virtual time when the written frame answers a location report
	slowReplyMs int
	// keyFunc: service.WithKeyFunc (nil = the default, the phone number)
	keyFunc func(*service.Message) (string, bool)
}

// startWorld must be called from thread 0 of an execution.
func startWorld(o worldOpts) *world {
	w := &world{parse: o.parse, stab: o.stab, slowReplyMs: o.slowReplyMs}
	w.boot(o)
	return w
}

func (w *world) boot(o worldOpts) {
	n := vs.ThreadCount()
	opts := []service.Option{service.WithHostPorts(srvAddr), service.WithNetwork("tcp")}
	if !o.noRecord {
		opts = append(opts,
			service.WithCustomTerminalEventer(func() service.TerminalEventer {
				e := &recEventer{w: w, conn: w.nextEvt()}
				return e
			}),
			service.WithCustomHandleFunc(func() map[consts.JT808CommandType]service.Handler {
				c := w.nextHnd()
				m := map[consts.JT808CommandType]service.Handler{}
				for id, mk := range defaultModels() {
					m[id] = &recHandler{JT808Handler: mk(), w: w, conn: c}
				}
				return m
			}))
	}
	if o.filter != nil {
		opts = append(opts, service.WithHasSubcontract(*o.filter))
	}
	if o.keyFunc != nil {
		opts = append(opts, service.WithKeyFunc(o.keyFunc))
	}
	w.srv = service.New(opts...)
	vs.MarkDaemonFrom(n)
	vs.GoNamed("srv.Run", true, w.srv.Run)
}

//go:norace
func (w *world) nextEvt() int { w.nEvt++; return w.nEvt - 1 }

//go:norace
func (w *world) nextHnd() int { w.nHnd++; return w.nHnd - 1 }

//go:norace
func (w *world) dial() *vnet.Peer {
	p := vnet.Dial(srvAddr)
	w.peers = append(w.peers, p)
	return p
}

//go:norace
func (w *world) newCall(name, key string, cmd uint16) *callRec {
	c := &callRec{Name: name, Key: key, Cmd: cmd}
	w.calls = append(w.calls, c)
	return c
}

//go:norace
func (c *callRec) begin() {
	c.Started = true
	c.StepStart = vs.StepNow()
	c.ClockStart = vs.ClockNanos()
}

//go:norace
func (c *callRec) end(m *service.Message, s snap) {
	c.Done = true
	c.Reply = m
	c.Snap = s
	c.StepDone = vs.StepNow()
	c.ClockDone = vs.ClockNanos()
}

// call starts a caller thread doing one SendActiveMessage.
func (w *world) call(name, key string, cmd consts.JT808CommandType, body []byte, timeout time.Duration) *callRec {
	c := w.newCall(name, key, uint16(cmd))
	vs.GoNamed(name, false, func() {
		c.begin()
		m := w.srv.SendActiveMessage(service.NewActiveMessage(key, cmd, body, timeout))
		var s snap
		if m != nil {
			s = takeSnap(m)
		}
		c.end(m, s)
	})
	return c
}

// ---- common oracles ----

// baseViolations: no panic, no thread stranded (other than declared daemons).
func baseViolations(res *vs.Result, allowBlocked func(b vs.Blocked) bool) []vs.Violation {
	var out []vs.Violation
	if res.Panic != nil {
		out = append(out, vs.Violation{Sig: "panic:" + vc.PanicClass(res.Panic.Value) + "@" + vc.RepoFrame(res.Panic.Stack),
			Msg: fmt.Sprintf("thread %s panicked (the server process would have died): %s\n%s", res.Panic.Thread, res.Panic.Value, res.Panic.Stack)})
		return out
	}
	if res.Horizon {
		out = append(out, vs.Violation{Sig: "horizon", Msg: "execution did not become quiescent within the step horizon (livelock?)"})
	}
	for _, b := range res.Blocked {
		if b.Daemon || (allowBlocked != nil && allowBlocked(b)) {
			continue
		}
		out = append(out, vs.Violation{Sig: "stranded:" + threadClass(b.Thread) + ":" + b.Kind,
			Msg: fmt.Sprintf("at quiescence thread %s is blocked forever in %s (object %d, %s)", b.Thread, b.Kind, b.Obj, b.Site)})
	}
	return out
}

// threadClass strips the numeric id from generated thread names.
func threadClass(n string) string {
	if i := strings.Index(n, "@"); i >= 0 && strings.HasPrefix(n, "g") {
		return "g@" + n[i+1:]
	}
	return strings.TrimRight(n, "0123456789")
}

func framesOf(out []vnet.WriteRec) [][]byte {
	var fs [][]byte
	for _, o := range out {
		if !o.Failed {
			fs = append(fs, o.Data)
		}
	}
	return fs
}

func sortedKeys[V any](m map[string]V) []string {
	var ks []string
	for k := range m {
		ks = append(ks, k)
	}
	sort.Strings(ks)
	return ks
}

// heartbeat / standard frames used by several scenarios
func hbFrame(v2019 bool, phone string, serial uint16) []byte {
	return ref.Encode(ref.TermHeader(0x0002, v2019, phone, serial), nil)
}
