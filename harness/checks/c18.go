package checks

import (
	"encoding/json"
	"fmt"
	"os"
	"regexp"
	"sort"
	"strings"

	"verif/harness/ref"
	"verif/harness/vc"
	"verif/harness/vs"
)

// C18 - connection goroutines are free of data races (E1, race mode): every
// explored schedule runs under the Go race runtime, which sees only the
// happens-before edges of the program itself (see harness/vs/race_on.go).

type raceReport struct {
	Sig  string
	Text string
}

var reAccess = regexp.MustCompile(`^(Previous )?(read|write|Read|Write) at 0x[0-9a-f]+ by (main )?goroutine`)

const repoPfx = "github.com/cuteLittleDevil/go-jt808/"

// parseRaceLog splits race-detector output into reports and computes a
// stable signature: the unordered pair (access kind @ innermost repository function).
func parseRaceLog(text string) (reports []raceReport, harnessOnly []string) {
	blocks := strings.Split(text, "==================")
	for _, b := range blocks {
		if !strings.Contains(b, "WARNING: DATA RACE") {
			continue
		}
		lines := strings.Split(b, "\n")
		type acc struct {
			kind   string
			frame  string
			via    string
			frames []string
		}
		var accs []acc
		cur := -1
		inStack := false
		for _, l := range lines {
			t := strings.TrimSpace(l)
			if m := reAccess.FindStringSubmatch(t); m != nil {
				accs = append(accs, acc{kind: strings.ToLower(m[2])})
				cur = len(accs) - 1
				inStack = true
				continue
			}
			if strings.HasPrefix(t, "Goroutine ") {
				inStack = false
				cur = -1
				continue
			}
			if !inStack || cur < 0 || t == "" {
				continue
			}
			if strings.HasPrefix(t, "/") { // file:line
				continue
			}
			fn := t
			if i := strings.LastIndex(fn, "("); i > 0 {
				fn = fn[:i]
			}
			accs[cur].frames = append(accs[cur].frames, fn)
			if accs[cur].frame == "" && strings.HasPrefix(fn, repoPfx) {
				accs[cur].frame = strings.TrimPrefix(fn, repoPfx)
			}
			if accs[cur].frame == "" && accs[cur].via == "" && strings.HasPrefix(fn, "verif/harness/checks.") {
				accs[cur].via = "user-callback"
			}
		}
		if len(accs) < 2 {
			continue
		}
		if accs[0].frame == "" && accs[1].frame == "" {
			harnessOnly = append(harnessOnly, b)
			continue
		}
		// a runtime helper with built-in race hooks (slicecopy, map access, growslice) called directly from a
		// shim is the shim touching its own state: the checker reporting itself, never a finding
		selfRep := false
		for _, a := range accs[:2] {
			if len(a.frames) >= 2 && strings.HasPrefix(a.frames[0], "runtime.") && isShimFrame(a.frames[1]) {
				switch a.frames[0] {
				case "runtime.raceread", "runtime.racewrite", "runtime.RaceRead", "runtime.RaceWrite", "runtime.RaceReadRange", "runtime.RaceWriteRange":
				default:
					if !strings.Contains(a.frames[1], "MapKeys") {
						selfRep = true
					}
				}
			}
		}
		if selfRep {
			harnessOnly = append(harnessOnly, b)
			continue
		}
		var parts []string
		for _, a := range accs[:2] {
			f := a.frame
			if f == "" {
				f = "?"
			}
			// closures: keep the enclosing function only
			if i := strings.Index(f, ".func"); i > 0 {
				f = f[:i]
			}
			s := a.kind + "@" + f
			if a.via != "" {
				s += "(" + a.via + ")"
			}
			parts = append(parts, s)
		}
		sort.Strings(parts)
		reports = append(reports, raceReport{Sig: "race:" + strings.Join(parts, " | "), Text: strings.TrimSpace(b)})
	}
	return
}

func isShimFrame(fn string) bool {
	for _, p := range []string{"verif/harness/vs.", "verif/harness/vnet.", "verif/harness/vsync.", "verif/harness/vtime.", "verif/harness/vos."} {
		if strings.HasPrefix(fn, p) {
			return true
		}
	}
	return false
}

type raceCase struct {
	Family  string          `json:"family"`
	Scn     json.RawMessage `json:"scenario"`
	Choices []int           `json:"choices"`
}

func raceLogPath() string {
	for _, kv := range strings.Fields(os.Getenv("GORACE")) {
		if strings.HasPrefix(kv, "log_path=") {
			return fmt.Sprintf("%s.%d", strings.TrimPrefix(kv, "log_path="), os.Getpid())
		}
	}
	return ""
}

type raceWatch struct {
	path string
	off  int64
	errs int
}

func (w *raceWatch) fresh() string {
	if vs.RaceErrors() == w.errs {
		return ""
	}
	w.errs = vs.RaceErrors()
	b, err := os.ReadFile(w.path)
	if err != nil || int64(len(b)) <= w.off {
		return ""
	}
	s := string(b[w.off:])
	w.off = int64(len(b))
	return s
}

func init() {
	vc.Register(&vc.Check{
		ID: "C18", Level: "model_checking", SingleProc: true,
		Rule: "the scenario families of C06 (schedules), C09, C11, C12 and C13 are explored in the -race build: every schedule within 2 deviations is executed under the Go race runtime (thorough: then again within 3 deviations as far as the time cap allows; deviation_bound_completed says what was finished for every scenario), token hand-offs hidden (RaceDisable) and exactly the program's own happens-before edges re-created (channel send/receive/close, unbuffered rendezvous, sync.Once, go statement); " +
			"the idiom corpus (race-free idioms silent, seeded races reported) is run first as a self-test. Non-trivial = schedule with >=1 deviation",
		Assumptions: []string{"the race runtime keeps 4 shadow cells per 8 bytes and de-duplicates reports by stack pair: a race can be missed, never invented",
			"incidental synchronisation inside the standard library (sync.Pool in fmt) can hide a race in individual executions", "socket Read/Write/Close carry no happens-before edges (the net package documents none)"},
		Run: c18Run,
		Drivers: map[string]func(json.RawMessage) string{"race": func(raw json.RawMessage) string {
			if !vs.RaceEnabled {
				return "replay of a race needs the race build: use bin/vcheck C18 --replay <file>"
			}
			var c raceCase
			if err := json.Unmarshal(raw, &c); err != nil {
				return err.Error()
			}
			w := &raceWatch{path: raceLogPath(), errs: vs.RaceErrors()}
			var mk func() (func(), any)
			switch c.Family {
			case "conv":
				var s convScn
				_ = json.Unmarshal(c.Scn, &s)
				mk = convMake(s)
			case "cmd":
				var s cmdScn
				_ = json.Unmarshal(c.Scn, &s)
				mk = cmdMake(s)
			case "reg":
				var s regScn
				_ = json.Unmarshal(c.Scn, &s)
				mk = regMake(s)
			}
			x := &vs.Explorer{Make: mk, Check: func(*vs.Result, any) []vs.Violation { return nil }, Horizon: 3000000}
			x.RunOnce(c.Choices, nil, false)
			if vs.RaceErrors() == w.errs {
				return ""
			}
			b, _ := os.ReadFile(w.path)
			return "race detector report(s) for this schedule:\n" + string(b)
		}},
	})
}

func c18Run(ctx *vc.Ctx, rep *vc.Report) {
	if !vs.RaceEnabled {
		rep.Nondet = "C18 must run in the -race build (bin/vcheck builds it)"
		return
	}
	lines, err := vs.SelfTest()
	if err != nil {
		rep.Nondet = "race-mode self-test failed, annotations cannot be trusted: " + err.Error()
		return
	}
	if ctx.Worker == 0 {
		rep.Notes = append(rep.Notes, "idiom corpus: "+strings.Join(lines, "; "))
	}
	w := &raceWatch{path: raceLogPath(), errs: vs.RaceErrors()}
	if b, err := os.ReadFile(w.path); err == nil {
		w.off = int64(len(b)) // skip the self-test's seeded races
	}
	bound := 2
	boundOverride := 0
	one := func(family, name string, scn any, mk func() (func(), any)) {
		bound := bound
		if boundOverride > 0 {
			bound = boundOverride
		}
		if ctx.Expired() || rep.TooMany() {
			rep.Truncated = rep.Truncated || ctx.Expired()
			return
		}
		var x *vs.Explorer
		check := func(res *vs.Result, user any) []vs.Violation {
			txt := w.fresh()
			if txt == "" {
				return nil
			}
			reports, hOnly := parseRaceLog(txt)
			if len(hOnly) > 0 {
				rep.Nondet = "race report without a repository frame (the checker reported itself):\n" + hOnly[0]
			}
			var out []vs.Violation
			for _, r := range reports {
				out = append(out, vs.Violation{Sig: r.Sig, Msg: r.Text})
			}
			return out
		}
		x = &vs.Explorer{Name: name, Bound: bound, Make: mk, Check: check, KeepKeys: true, Deadline: ctx.Deadline,
			Shard: ctx.Worker, NShards: ctx.NWorkers, Horizon: 3000000, MaxFound: 64, NoConfirm: true}
		x.Explore()
		js, _ := json.Marshal(scn)
		mergeStats(rep, x, bound, "race", func(f vs.Found) any { return raceCase{family, js, f.Choices} })
		if ctx.Worker == 0 {
			rep.Sample(map[string]any{"family": family, "scenario": name, "bound": bound})
		}
	}
	runAll := func() {
		p1 := "13800138000"
		convs := []convScn{
			{Name: "race:conv:reg-auth-hb", Conns: [][]tmsg{{{ID: 0x0100, Phone: p1, Serial: 1}, {ID: 0x0102, Phone: p1, Serial: 2}, {ID: 0x0002, Phone: p1, Serial: 3}}}, Close: true},
			{Name: "race:conv:two-conns", Conns: [][]tmsg{{{ID: 0x0100, Phone: p1, Serial: 1}, {ID: 0x0002, Phone: p1, Serial: 2}}, {{ID: 0x0100, V2019: true, Phone: "13900139000", Serial: 1}, {ID: 0x0200, V2019: true, Phone: "13900139000", Serial: 2}}}},
		}
		// the server's own default handlers (shared-state hazards between connections live there)
		convs = append(convs,
			convScn{Name: "race:conv:plain-two-conns-auth", Plain: true, Conns: [][]tmsg{{{ID: 0x0102, Phone: p1, Serial: 1}, {ID: 0x0801, Phone: p1, Serial: 2}, {ID: 0x1212, Phone: p1, Serial: 3}}, {{ID: 0x0102, V2019: true, Phone: "13900139000", Serial: 1, Variant: 1}, {ID: 0x0801, V2019: true, Phone: "13900139000", Serial: 2, Variant: 1}, {ID: 0x1212, Phone: "13900139000", Serial: 3}}}},
			convScn{Name: "race:conv:plain-two-conns-mixed", Plain: true, Conns: [][]tmsg{{{ID: 0x0100, Phone: p1, Serial: 1}, {ID: 0x0200, Phone: p1, Serial: 2}, {ID: 0x0704, Phone: p1, Serial: 3}}, {{ID: 0x0100, Phone: "13900139000", Serial: 1}, {ID: 0x0200, Phone: "13900139000", Serial: 2}, {ID: 0x0704, Phone: "13900139000", Serial: 3}}}, Close: true},
		)
		for _, s := range c09Scenarios(false) {
			s.Stab = false
			s.Name = "race:" + s.Name
			convs = append(convs, s)
		}
		// a sub-package transfer that stalls for more than 5 s: the reader builds the re-request from the first packet's
		// header, which it handed to the writer long ago
		for _, plain := range []bool{false, true} {
			convs = append(convs, convScn{Name: fmt.Sprintf("race:conv:stalled-transfer:plain=%v", plain), Plain: plain, IdleMs: []int{0, 0, 5001, 0},
				Conns: [][]tmsg{{{ID: 0x0002, Phone: p1, Serial: 1}, {ID: 0x0801, Phone: p1, Serial: 2, Total: 3, Number: 1, Body: "000000aa0000010211223344556677889900112233445566778899001122334455667788"}, {ID: 0x0002, Phone: p1, Serial: 3}, {ID: 0x0002, Phone: p1, Serial: 4}}}})
		}
		for _, s := range convs {
			one("conv", s.Name, s, convMake(s))
		}
		// every message type the server handles by default, both header versions, on two connections at once with the
		// server's own handlers: package-level state anywhere in the codec reachable from a connection is then touched
		// by two writer goroutines that nothing orders (a race report needs the two accesses, not a particular
		// schedule, so 1 deviation is enough here)
		for _, v19 := range []bool{false, true} {
			var a, b []tmsg
			for i, id := range ref.DefaultIDs {
				a = append(a, tmsg{ID: id, V2019: v19, Phone: p1, Serial: uint16(i)})
				b = append(b, tmsg{ID: id, V2019: v19, Phone: "13900139000", Serial: uint16(100 + i), Variant: 1})
			}
			s := convScn{Name: fmt.Sprintf("race:conv:plain-all-default-ids:v2019=%v", v19), Plain: true, Conns: [][]tmsg{a, b}}
			boundOverride = 1
			one("conv", s.Name, s, convMake(s))
			boundOverride = 0
		}
		for _, s := range c12Scenarios(false) {
			if s.HoldUntilOnline {
				continue // 65536-frame preamble: too slow under the race runtime, nothing new to race on
			}
			s.Name = "race:" + s.Name
			one("cmd", s.Name, s, cmdMake(s))
		}
		for _, s := range c13Scenarios(false) {
			s.Name = "race:" + s.Name
			one("cmd", s.Name, s, cmdMake(s))
		}
		for _, s := range c11Scenarios(false) {
			s.Name = "race:" + s.Name
			one("reg", s.Name, s, regMake(s))
		}
	}
	runAll()
	if ctx.Thorough() && !rep.Truncated {
		// everything is covered with 2 deviations; now again with 3, as far as the time cap allows
		bound = 3
		runAll()
		if rep.Truncated {
			rep.Bound = 2 // completed for every scenario; 3 only for a prefix of the list
			rep.Count("bound_3_pass_truncated", 1)
		}
	}
}
