// Package vos replaces package os in attachment/file_event.go: relative paths
// are resolved against a scratch root (the simulated working directory), every
// create/write target is logged, and an operation is carried out only when the
// cleaned path stays inside the root - a defective tree cannot write elsewhere.
package vos

import (
	"errors"
	"os"
	"path/filepath"
	"strings"
)

type (
	File      = os.File
	FileMode  = os.FileMode
	FileInfo  = os.FileInfo
	PathError = os.PathError
)

const (
	O_RDONLY = os.O_RDONLY
	O_WRONLY = os.O_WRONLY
	O_RDWR   = os.O_RDWR
	O_APPEND = os.O_APPEND
	O_CREATE = os.O_CREATE
	O_EXCL   = os.O_EXCL
	O_SYNC   = os.O_SYNC
	O_TRUNC  = os.O_TRUNC

	ModePerm = os.ModePerm
	ModeDir  = os.ModeDir
)

var (
	ErrNotExist = os.ErrNotExist
	ErrExist    = os.ErrExist
	Getenv      = os.Getenv
	Stdout      = os.Stdout
	Stderr      = os.Stderr
	IsNotExist  = os.IsNotExist
	IsExist     = os.IsExist
)

type Access struct {
	Op     string
	Path   string // as given by the code under test
	Clean  string // absolute, cleaned, relative to the simulated cwd
	Inside bool
	Size   int
	Data   []byte
}

var (
	// Root is the simulated working directory ("" = operations are only logged).
	Root string
	// Log of every operation since the last Reset.
	Log []Access
	// Virtual: do not touch the disk at all, keep written files in memory.
	Virtual bool
	Files   map[string][]byte
)

var ErrOutside = errors.New("vos: path escapes the sandbox root")

func Reset(root string) {
	Root = root
	Log = nil
	Files = map[string][]byte{}
}

func resolve(p string) (string, bool) {
	abs := p
	if !filepath.IsAbs(p) {
		abs = filepath.Join(Root, p)
	}
	abs = filepath.Clean(abs)
	inside := Root != "" && (abs == Root || strings.HasPrefix(abs, Root+string(filepath.Separator)))
	return abs, inside
}

func note(op, p string, size int, data []byte) (string, bool) {
	abs, in := resolve(p)
	Log = append(Log, Access{Op: op, Path: p, Clean: abs, Inside: in, Size: size, Data: data})
	return abs, in
}

func MkdirAll(path string, perm FileMode) error {
	abs, in := note("mkdirall", path, 0, nil)
	if !in {
		return ErrOutside
	}
	if Virtual {
		return nil
	}
	return os.MkdirAll(abs, perm)
}

func Mkdir(path string, perm FileMode) error {
	abs, in := note("mkdir", path, 0, nil)
	if !in {
		return ErrOutside
	}
	if Virtual {
		return nil
	}
	return os.Mkdir(abs, perm)
}

func WriteFile(name string, data []byte, perm FileMode) error {
	cp := append([]byte(nil), data...)
	abs, in := note("writefile", name, len(data), cp)
	if !in {
		return ErrOutside
	}
	if strings.ContainsRune(name, 0) {
		return &os.PathError{Op: "open", Path: name, Err: errors.New("invalid argument")}
	}
	if Virtual {
		Files[abs] = cp
		return nil
	}
	return os.WriteFile(abs, data, perm)
}

func OpenFile(name string, flag int, perm FileMode) (*File, error) {
	abs, in := note("openfile", name, 0, nil)
	if !in {
		return nil, ErrOutside
	}
	if Virtual {
		return nil, ErrOutside
	}
	return os.OpenFile(abs, flag, perm)
}

func Create(name string) (*File, error) {
	return OpenFile(name, O_RDWR|O_CREATE|O_TRUNC, 0o666)
}

func Open(name string) (*File, error) {
	abs, _ := resolve(name)
	return os.Open(abs)
}

func ReadFile(name string) ([]byte, error) {
	abs, _ := resolve(name)
	if Virtual {
		if b, ok := Files[abs]; ok {
			return b, nil
		}
		return nil, os.ErrNotExist
	}
	return os.ReadFile(abs)
}

func Stat(name string) (FileInfo, error) {
	abs, _ := resolve(name)
	return os.Stat(abs)
}

func Remove(name string) error {
	abs, in := note("remove", name, 0, nil)
	if !in {
		return ErrOutside
	}
	return os.Remove(abs)
}

func RemoveAll(name string) error {
	abs, in := note("removeall", name, 0, nil)
	if !in {
		return ErrOutside
	}
	return os.RemoveAll(abs)
}

func Rename(a, b string) error {
	absA, inA := note("rename-from", a, 0, nil)
	absB, inB := note("rename-to", b, 0, nil)
	if !inA || !inB {
		return ErrOutside
	}
	return os.Rename(absA, absB)
}

func Getwd() (string, error) { return Root, nil }
