// Package corpus holds small programs covering the concurrency idioms that
// vgen rewrites. Each program is deterministic by construction (its output
// does not depend on the schedule), so the natively built program, the
// rewritten program under the run-to-block schedule and the rewritten program
// under every schedule within the deviation bound must all print the same.
package corpus

import (
	"fmt"
	"sort"
	"strings"
	"sync"
	"time"
)

type Prog struct {
	Name string
	Run  func() string
}

type job struct {
	id   int
	done chan int
}

type worker struct {
	in  chan job
	out chan<- string
	mu  sync.Mutex
	n   int
}

func (w *worker) loop(tag string) {
	for j := range w.in {
		w.mu.Lock()
		w.n++
		w.mu.Unlock()
		j.done <- j.id * 2
	}
	w.out <- tag + ":closed"
}

func gen(n int) <-chan int {
	c := make(chan int)
	go func() {
		defer close(c)
		for i := 0; i < n; i++ {
			c <- i
		}
	}()
	return c
}

type named chan int

var Progs = []Prog{
	{"pingpong-unbuffered", func() string {
		ping, pong := make(chan int), make(chan int)
		go func() {
			for v := range ping {
				pong <- v + 1
			}
			close(pong)
		}()
		s := 0
		for i := 0; i < 3; i++ {
			ping <- i
			s += <-pong
		}
		close(ping)
		_, ok := <-pong
		return fmt.Sprint(s, ok)
	}},
	{"buffered-range-close", func() string {
		c := make(chan string, 2)
		done := make(chan struct{})
		var got []string
		go func() {
			for v := range c {
				got = append(got, v)
			}
			close(done)
		}()
		for _, v := range []string{"a", "b", "c", "d"} {
			c <- v
		}
		close(c)
		<-done
		return strings.Join(got, "") + fmt.Sprint(len(c), cap(c))
	}},
	{"select-send-recv-default", func() string {
		in, out := make(chan int, 1), make(chan int, 1)
		var log []string
		in <- 7
		out <- 99 // full: only the receive case is ready in round 0
		for i := 0; i < 4; i++ {
			if i == 1 {
				<-out // now only the send case is ready
			}
			select {
			case v := <-in:
				log = append(log, fmt.Sprint("recv", v))
			case out <- i:
				log = append(log, fmt.Sprint("send", i))
			default:
				log = append(log, "default")
			}
		}
		return strings.Join(log, ",")
	}},
	{"select-nil-channel-and-closed", func() string {
		var never chan int
		closed := make(chan int)
		close(closed)
		select {
		case <-never:
			return "never"
		case v, ok := <-closed:
			return fmt.Sprint("closed", v, ok)
		}
	}},
	{"labeled-break-out-of-select-loop", func() string {
		c := make(chan int, 3)
		c <- 1
		c <- 2
		c <- 3
		n := 0
	loop:
		for {
			select {
			case v := <-c:
				n += v
				if v == 2 {
					break loop
				}
			default:
				break loop
			}
		}
		return fmt.Sprint(n, len(c))
	}},
	{"waitgroup-mutex", func() string {
		var wg sync.WaitGroup
		var mu sync.Mutex
		total := 0
		for i := 1; i <= 4; i++ {
			wg.Add(1)
			go func(k int) {
				defer wg.Done()
				mu.Lock()
				total += k
				mu.Unlock()
			}(i)
		}
		wg.Wait()
		return fmt.Sprint(total)
	}},
	{"once", func() string {
		var once sync.Once
		n := 0
		done := make(chan struct{}, 3)
		for i := 0; i < 3; i++ {
			go func() {
				once.Do(func() { n++ })
				done <- struct{}{}
			}()
		}
		for i := 0; i < 3; i++ {
			<-done
		}
		return fmt.Sprint(n)
	}},
	{"go-args-evaluated-at-go-time", func() string {
		res := make(chan int, 3)
		x := 1
		for i := 0; i < 3; i++ {
			go func(a, b int) { res <- a*10 + b }(i, x)
			x++
		}
		var got []int
		for i := 0; i < 3; i++ {
			got = append(got, <-res)
		}
		sort.Ints(got)
		return fmt.Sprint(got)
	}},
	{"method-value-and-struct-channels", func() string {
		out := make(chan string, 1)
		w := &worker{in: make(chan job), out: out}
		go w.loop("w")
		s := 0
		for i := 1; i <= 3; i++ {
			j := job{id: i, done: make(chan int)}
			w.in <- j
			s += <-j.done
		}
		close(w.in)
		tag := <-out
		return fmt.Sprint(s, tag, w.n)
	}},
	{"generator-receive-only", func() string {
		s := 0
		for v := range gen(5) {
			s += v
		}
		return fmt.Sprint(s)
	}},
	{"chan-of-chan", func() string {
		req := make(chan chan<- string, 1)
		go func() {
			r := <-req
			r <- "answer"
		}()
		mine := make(chan string)
		req <- mine
		return <-mine
	}},
	{"timeout-with-time-after", func() string {
		never := make(chan int)
		start := time.Now()
		select {
		case <-never:
			return "value"
		case <-time.After(20 * time.Millisecond):
			if time.Since(start) < 20*time.Millisecond {
				return "timeout-too-early"
			}
			return "timeout"
		}
	}},
	{"timer-stop", func() string {
		t := time.NewTimer(time.Hour)
		stopped := t.Stop()
		tm := time.NewTimer(5 * time.Millisecond)
		<-tm.C
		return fmt.Sprint(stopped)
	}},
	{"sleep-and-clock", func() string {
		a := time.Now()
		time.Sleep(30 * time.Millisecond)
		return fmt.Sprint(time.Since(a) >= 30*time.Millisecond)
	}},
	{"map-range-with-delete", func() string {
		m := map[string]int{"a": 1, "b": 2, "c": 3, "d": 4}
		visited := 0
		for k := range m {
			visited++
			delete(m, k)
		}
		sum := 0
		for _, v := range map[int]int{1: 10, 2: 20} {
			sum += v
		}
		return fmt.Sprint(visited, len(m), sum)
	}},
	{"named-channel-type-alias-use", func() string {
		var c named = make(chan int, 1)
		c <- 5
		return fmt.Sprint(<-c)
	}},
	{"rwmutex-readers", func() string {
		var mu sync.RWMutex
		v := 0
		done := make(chan int, 2)
		mu.Lock()
		v = 9
		mu.Unlock()
		for i := 0; i < 2; i++ {
			go func() {
				mu.RLock()
				x := v
				mu.RUnlock()
				done <- x
			}()
		}
		return fmt.Sprint(<-done + <-done)
	}},
	{"send-on-closed-panics-and-recovers", func() string {
		c := make(chan int, 1)
		close(c)
		defer func() {}()
		r := func() (s string) {
			defer func() {
				if e := recover(); e != nil {
					s = fmt.Sprint(e)
				}
			}()
			c <- 1
			return "no panic"
		}()
		return r
	}},
}
