// Package vnet replaces package net in rewritten code: a TCP byte stream with
// EOF, reset and write failure whose segmentation is owned by the harness.
package vnet

import (
	"io"
	"net"
	"syscall"
	"time"

	"verif/harness/vs"
)

type (
	Addr                = net.Addr
	Conn                = net.Conn
	Error               = net.Error
	OpError             = net.OpError
	TCPAddr             = net.TCPAddr
	IP                  = net.IP
	IPNet               = net.IPNet
	AddrError           = net.AddrError
	Listener            = net.Listener
	UnknownNetworkError = net.UnknownNetworkError
)

var (
	ErrClosed      = net.ErrClosed
	ResolveTCPAddr = net.ResolveTCPAddr
	ParseIP        = net.ParseIP
	JoinHostPort   = net.JoinHostPort
	SplitHostPort  = net.SplitHostPort
	IPv4           = net.IPv4
	ParseCIDR      = net.ParseCIDR
)

type WriteRec struct {
	Data   []byte
	Thread string
	Step   int
	Failed bool
}

// world holds no maps and uses no copy(): runtime map and slicecopy helpers
// carry race-detector hooks that would report the shim itself.
type world struct {
	listeners []*TCPListener
	conns     []*TCPConn
	stepCtr   int
	addrs     []addrObj // one scheduler object per address: dials and the listener's accepts act on the same object
}

type addrObj struct {
	addr string
	id   int
}

//go:norace
func (x *world) objOf(addr string) int {
	for _, a := range x.addrs {
		if a.addr == addr {
			return a.id
		}
	}
	id := vs.NewObj()
	x.addrs = append(x.addrs, addrObj{addr, id})
	return id
}

var w = &world{}

//go:norace
func (x *world) find(addr string) *TCPListener {
	for _, l := range x.listeners {
		if l.addr == addr && !l.closed {
			return l
		}
	}
	return nil
}

//go:norace
func clone(b []byte) []byte {
	out := make([]byte, len(b))
	for i := range b {
		out[i] = b[i]
	}
	return out
}

// Reset forgets every listener and connection (called per execution).
//
//go:norace
func Reset() { w = &world{} }

// Conns lists every connection created in this execution, in dial order.
//
//go:norace
func Conns() []*TCPConn { return w.conns }

type TCPListener struct {
	id     int
	addr   string
	queue  []*TCPConn
	closed bool
}

//go:norace
func ListenTCP(network string, laddr *TCPAddr) (*TCPListener, error) {
	a := ""
	if laddr != nil {
		a = laddr.String()
	}
	return listen(a)
}

//go:norace
func listen(a string) (*TCPListener, error) {
	if vs.Active() {
		vs.Yield("listen", w.objOf(a))
	}
	if w.find(a) != nil {
		return nil, &net.OpError{Op: "listen", Net: "tcp", Err: syscall.EADDRINUSE}
	}
	l := &TCPListener{id: w.objOf(a), addr: a}
	w.listeners = append(w.listeners, l)
	return l, nil
}

//go:norace
func Listen(network, address string) (net.Listener, error) {
	l, err := listen(address)
	if err != nil {
		return nil, err
	}
	return l, nil
}

type acceptWaiter struct{ l *TCPListener }

//go:norace
func (a acceptWaiter) Ready() bool { return len(a.l.queue) > 0 || a.l.closed }

//go:norace
func (l *TCPListener) AcceptTCP() (*TCPConn, error) {
	vs.Block(&vs.Op{Kind: "accept", Obj: l.id, W: acceptWaiter{l}})
	if l.closed {
		return nil, &net.OpError{Op: "accept", Net: "tcp", Err: net.ErrClosed}
	}
	c := l.queue[0]
	l.queue = l.queue[1:]
	return c, nil
}

//go:norace
func (l *TCPListener) Accept() (net.Conn, error) {
	c, err := l.AcceptTCP()
	if err != nil {
		return nil, err
	}
	return c, nil
}

//go:norace
func (l *TCPListener) Close() error {
	l.closed = true
	return nil
}

func (l *TCPListener) Addr() net.Addr { return &net.TCPAddr{IP: net.IPv4(127, 0, 0, 1), Port: 808} }

func (l *TCPListener) SetDeadline(t time.Time) error { return nil }

// TCPConn is the server side of a virtual connection.
type TCPConn struct {
	id         int
	Index      int
	in         [][]byte
	peerClosed bool
	peerReset  bool
	closed     bool
	Out        []WriteRec
	ReadsDone  int // number of Read calls that returned data
	// FailWrites: let writes fail (as an explorer choice) once the peer is gone
	FailWrites bool
	// FailWhenGone: once the peer has closed or reset, every write fails (deterministically)
	FailWhenGone bool
	// FailFrom (scripted sessions): the FailFrom-th write and every later one fail (0: never)
	FailFrom int
	// Owner / OwnerSeq identify the connection independently of the dial order: name of the dialling thread and
	// how many connections it had dialled before
	Owner    string
	OwnerSeq int
}

// Digest summarises the connection's state for the explorer's state cache (bytes written and pending, flags).
//
//go:norace
func (c *TCPConn) Digest() uint64 {
	h := uint64(14695981039346656037)
	mix := func(b byte) { h ^= uint64(b); h *= 1099511628211 }
	for i := 0; i < len(c.Owner); i++ {
		mix(c.Owner[i])
	}
	mix(byte(c.OwnerSeq))
	for _, o := range c.Out {
		for _, b := range o.Data {
			mix(b)
		}
		if o.Failed {
			mix(0xF1)
		} else {
			mix(0xF0)
		}
	}
	mix(0xEE)
	for _, ch := range c.in {
		for _, b := range ch {
			mix(b)
		}
		mix(0xED)
	}
	fl := byte(0)
	if c.peerClosed {
		fl |= 1
	}
	if c.peerReset {
		fl |= 2
	}
	if c.closed {
		fl |= 4
	}
	mix(fl)
	mix(byte(c.ReadsDone))
	return h
}

//go:norace
func (c *TCPConn) ID() int { return c.id }

type readWaiter struct{ c *TCPConn }

//go:norace
func (r readWaiter) Ready() bool {
	c := r.c
	return len(c.in) > 0 || c.peerClosed || c.peerReset || c.closed
}

//go:norace
func (c *TCPConn) Read(b []byte) (int, error) {
	vs.Block(&vs.Op{Kind: "read", Obj: c.id, W: readWaiter{c}})
	if c.closed {
		return 0, &net.OpError{Op: "read", Net: "tcp", Err: net.ErrClosed}
	}
	if len(c.in) > 0 {
		chunk := c.in[0]
		n := len(chunk)
		if n > len(b) {
			n = len(b)
		}
		for i := 0; i < n; i++ {
			b[i] = chunk[i]
		}
		vs.RaceWriteRange(b[:n]) // the read syscall writes the caller's buffer
		if n < len(chunk) {
			c.in[0] = chunk[n:]
		} else {
			c.in = c.in[1:]
		}
		c.ReadsDone++
		return n, nil
	}
	if c.peerReset {
		return 0, &net.OpError{Op: "read", Net: "tcp", Err: syscall.ECONNRESET}
	}
	return 0, io.EOF
}

//go:norace
func (c *TCPConn) Write(b []byte) (int, error) {
	vs.Block(&vs.Op{Kind: "write", Obj: c.id})
	if c.closed {
		return 0, &net.OpError{Op: "write", Net: "tcp", Err: net.ErrClosed}
	}
	cp := clone(b)
	vs.RaceReadRange(b) // the write syscall reads the caller's buffer
	name := ""
	if t := vs.Self(); t != nil {
		name = t.Name
	}
	w.stepCtr = vs.StepNow()
	if c.FailFrom > 0 && len(c.Out) >= c.FailFrom-1 {
		// scripted sessions (outside an execution): every write from the FailFrom-th on fails
		c.Out = append(c.Out, WriteRec{Data: cp, Thread: name, Step: w.stepCtr, Failed: true})
		return 0, &net.OpError{Op: "write", Net: "tcp", Err: syscall.EPIPE}
	}
	if (c.peerClosed || c.peerReset) && c.FailWhenGone {
		// deterministic variant: once the peer is gone every write fails (no choice, so the unbounded search covers it)
		c.Out = append(c.Out, WriteRec{Data: cp, Thread: name, Step: w.stepCtr, Failed: true})
		return 0, &net.OpError{Op: "write", Net: "tcp", Err: syscall.EPIPE}
	}
	if (c.peerClosed || c.peerReset) && c.FailWrites {
		if vs.Choose("writefail", []int8{0, 1}) == 1 {
			c.Out = append(c.Out, WriteRec{Data: cp, Thread: name, Step: w.stepCtr, Failed: true})
			return 0, &net.OpError{Op: "write", Net: "tcp", Err: syscall.EPIPE}
		}
	}
	c.Out = append(c.Out, WriteRec{Data: cp, Thread: name, Step: w.stepCtr})
	return len(b), nil
}

//go:norace
func (c *TCPConn) Close() error {
	vs.Block(&vs.Op{Kind: "sockclose", Obj: c.id})
	if c.closed {
		return &net.OpError{Op: "close", Net: "tcp", Err: net.ErrClosed}
	}
	c.closed = true
	return nil
}

//go:norace
func (c *TCPConn) Closed() bool { return c.closed }

func (c *TCPConn) LocalAddr() net.Addr { return &net.TCPAddr{IP: net.IPv4(127, 0, 0, 1), Port: 808} }
func (c *TCPConn) RemoteAddr() net.Addr {
	return &net.TCPAddr{IP: net.IPv4(127, 0, 0, 1), Port: 40000 + c.Index}
}

func (c *TCPConn) SetDeadline(t time.Time) error          { return nil }
func (c *TCPConn) SetReadDeadline(t time.Time) error      { return nil }
func (c *TCPConn) SetWriteDeadline(t time.Time) error     { return nil }
func (c *TCPConn) SetKeepAlive(bool) error                { return nil }
func (c *TCPConn) SetKeepAlivePeriod(time.Duration) error { return nil }
func (c *TCPConn) SetNoDelay(bool) error                  { return nil }
func (c *TCPConn) SetLinger(int) error                    { return nil }
func (c *TCPConn) SetReadBuffer(int) error                { return nil }
func (c *TCPConn) SetWriteBuffer(int) error               { return nil }
func (c *TCPConn) CloseRead() error                       { return nil }
func (c *TCPConn) CloseWrite() error                      { return nil }

// ---- harness (peer) side ----

type Peer struct{ C *TCPConn }

type dialWaiter struct{ addr string }

//go:norace
func (d dialWaiter) Ready() bool { return w.find(d.addr) != nil }

// NewConn makes a connection that is not attached to any listener (used to
// hand a scripted net.Conn to code that takes one directly).
//
//go:norace
func NewConn() *Peer {
	c := &TCPConn{id: vs.NewObj(), Index: len(w.conns)}
	if t := vs.Self(); t != nil {
		c.Owner = t.Name
		for _, o := range w.conns {
			if o.Owner == c.Owner {
				c.OwnerSeq++
			}
		}
	}
	w.conns = append(w.conns, c)
	return &Peer{C: c}
}

// Dial waits for a listener on addr and queues a new connection on it.
//
//go:norace
func Dial(addr string) *Peer {
	// the dial appends to the listener's queue: it is an access to the object of that address
	vs.Block(&vs.Op{Kind: "dial", Obj: w.objOf(addr), W: dialWaiter{addr}})
	l := w.find(addr)
	c := &TCPConn{id: vs.NewObj(), Index: len(w.conns)}
	if t := vs.Self(); t != nil {
		c.Owner = t.Name
		for _, o := range w.conns {
			if o.Owner == c.Owner {
				c.OwnerSeq++
			}
		}
	}
	w.conns = append(w.conns, c)
	l.queue = append(l.queue, c)
	return &Peer{C: c}
}

// Send makes exactly chunk the result of one later Read (chunks longer than
// the reader's buffer are split by Read).
//
//go:norace
func (p *Peer) Send(chunk []byte) {
	if vs.Active() {
		vs.Block(&vs.Op{Kind: "psend", Obj: p.C.id})
	}
	p.C.in = append(p.C.in, clone(chunk))
}

//go:norace
func (p *Peer) Close() {
	if vs.Active() {
		vs.Block(&vs.Op{Kind: "pclose", Obj: p.C.id})
	}
	p.C.peerClosed = true
}

//go:norace
func (p *Peer) Reset() {
	if vs.Active() {
		vs.Block(&vs.Op{Kind: "preset", Obj: p.C.id})
	}
	p.C.peerReset = true
}

type expectWaiter struct {
	c *TCPConn
	n int
}

//go:norace
func (e expectWaiter) Ready() bool { return len(e.c.Out) >= e.n || e.c.closed }

// Expect waits until the server has written n frames (or closed) and returns
// what was written so far.
//
//go:norace
func (p *Peer) Expect(n int) []WriteRec {
	vs.Block(&vs.Op{Kind: "pexpect", Obj: p.C.id, W: expectWaiter{p.C, n}})
	return p.C.Out
}

type drainWaiter struct{ c *TCPConn }

//go:norace
func (d drainWaiter) Ready() bool { return len(d.c.in) == 0 || d.c.closed }

// Drained waits until the server has consumed everything sent so far.
//
//go:norace
func (p *Peer) Drained() {
	vs.Block(&vs.Op{Kind: "pdrained", Obj: p.C.id, W: drainWaiter{p.C}})
}

//go:norace
func (p *Peer) Writes() []WriteRec { return p.C.Out }
