package ref

import "bytes"

// Loc28 is a valid 28-byte location base block.
func Loc28(alarm, status uint32) []byte {
	b := []byte{byte(alarm >> 24), byte(alarm >> 16), byte(alarm >> 8), byte(alarm),
		byte(status >> 24), byte(status >> 16), byte(status >> 8), byte(status)}
	b = append(b, 0x06, 0xEE, 0xB6, 0xAD, 0x02, 0x63, 0x3D, 0xF7, 0x01, 0x38, 0x00, 0x03, 0x00, 0x63)
	return append(b, 0x24, 0x10, 0x01, 0x23, 0x59, 0x59)
}

// SampleBody returns a valid body for a default-registered terminal message.
// variant selects alternative contents (e.g. non-matching auth code).
func SampleBody(id uint16, v2019 bool, phone string, variant int) []byte {
	pad := func(s string, n int) []byte {
		b := make([]byte, n)
		copy(b, s)
		return b
	}
	switch id {
	case 0x0001:
		return []byte{0x00, 0x07, 0x81, 0x03, 0x00}
	case 0x0002:
		return nil
	case 0x0100:
		b := []byte{0x00, 0x1F, 0x00, 0x6E}
		if v2019 {
			b = append(b, pad("cd123", 11)...)
			b = append(b, pad("www.808.com", 30)...)
			b = append(b, pad("7654321", 30)...)
		} else {
			b = append(b, pad("cd123", 5)...)
			b = append(b, pad("www.808.com", 20)...)
			b = append(b, pad("7654321", 7)...)
		}
		b = append(b, 0x01)
		return append(b, 0xB2, 0xE2, 0x41, 0x31, 0x32, 0x33, 0x34, 0x35)
	case 0x0102:
		code := PhoneString(BCD(phone, 10))
		if variant == 1 {
			code = "wrong-code"
		}
		if v2019 {
			b := []byte{byte(len(code))}
			b = append(b, code...)
			b = append(b, pad("123456789012345", 15)...)
			return append(b, pad("3.7.15", 20)...)
		}
		return []byte(code)
	case 0x0104:
		return []byte{0x00, 0x03, 0x01, 0x00, 0x00, 0x00, 0x01, 0x04, 0x00, 0x00, 0x00, 0x0A}
	case 0x0200:
		return Loc28(1024, 2048)
	case 0x0704:
		b := []byte{0x00, 0x02, 0x01}
		b = append(b, 0x00, 0x1C)
		b = append(b, Loc28(1, 2)...)
		b = append(b, 0x00, 0x1C)
		return append(b, Loc28(0, 3)...)
	case 0x0800:
		return []byte{0x00, 0x00, 0x00, 0x2A, 0x00, 0x00, 0x01, 0x03}
	case 0x0801:
		b := []byte{0x00, 0x00, 0x01, 0x2C, 0x00, 0x00, 0x01, 0x02}
		if variant == 1 {
			b[0], b[1], b[2], b[3] = 0x7E, 0x7D, 0xFF, 0x01
		}
		b = append(b, Loc28(0, 0)...)
		return append(b, 0xFF, 0xD8, 0xFF, 0xE0, 0x7E, 0x7D)
	case 0x0805:
		return []byte{0x00, 0x05, 0x00, 0x00, 0x02, 0x00, 0x00, 0x00, 0x01, 0x00, 0x00, 0x00, 0x02}
	case 0x1003:
		return []byte{8, 2, 1, 1, 0x00, 0x64, 1, 98, 4, 8}
	case 0x1005:
		return []byte{0x24, 0x10, 0x01, 0x00, 0x00, 0x00, 0x24, 0x10, 0x01, 0x23, 0x59, 0x59, 0x00, 0x05, 0x00, 0x03}
	case 0x1205:
		return []byte{0x00, 0x09, 0x00, 0x00, 0x00, 0x00}
	case 0x1206:
		return []byte{0x00, 0x0A, 0x00}
	case 0x1210:
		b := pad("term001", 7)
		b = append(b, pad("term001", 7)...)               // alarm sign: terminal id
		b = append(b, 0x24, 0x10, 0x01, 0x23, 0x59, 0x59) // time
		b = append(b, 0x01, 0x02, 0x00)                   // serial, count, reserve
		b = append(b, pad("alarm-0001", 32)...)           // alarm id
		b = append(b, 0x00, 0x01)                         // info type, count
		b = append(b, 5)
		b = append(b, "a.jpg"...)
		return append(b, 0x00, 0x00, 0x10, 0x00)
	case 0x1211, 0x1212:
		b := []byte{5}
		b = append(b, "a.jpg"...)
		return append(b, 0x00, 0x00, 0x00, 0x10, 0x00)
	}
	return []byte{0x01, 0x02}
}

// Reply is the reference model of the server's automatic reply (C06).
type Reply struct {
	None     bool
	ID       uint16
	Body     []byte
	BodyFree bool // only existence/type/addressing are claimed (0x1003)
	// BodyPrefix: the body must start with Body and may only be followed by a zero count byte
	BodyPrefix bool
}

// DefaultIDs are the terminal-originated IDs the server registers by default.
var DefaultIDs = []uint16{0x0001, 0x0002, 0x0100, 0x0102, 0x0104, 0x0200, 0x0704, 0x0800, 0x0801, 0x0805,
	0x1003, 0x1005, 0x1205, 0x1206, 0x1210, 0x1211, 0x1212}

// ExpectedReply computes the reply the standard (and the property) prescribe
// for a complete terminal message. ok=false: the ID is unsupported (no reply).
func ExpectedReply(f *Frame) Reply {
	general := func(result byte) Reply {
		return Reply{ID: 0x8001, Body: []byte{byte(f.Serial >> 8), byte(f.Serial), byte(f.ID >> 8), byte(f.ID), result}}
	}
	phone := PhoneString(f.PhoneBCD)
	switch f.ID {
	case 0x0001, 0x0104, 0x0805, 0x1205, 0x1206:
		return Reply{None: true} // responses to platform commands
	case 0x0002, 0x0200, 0x0704, 0x0800, 0x1005, 0x1210, 0x1211:
		return general(0)
	case 0x0100:
		b := []byte{byte(f.Serial >> 8), byte(f.Serial), 0}
		return Reply{ID: 0x8100, Body: append(b, phone...)}
	case 0x0102:
		code := f.Body
		if f.V2019 {
			if len(f.Body) < 1+15+20 || len(f.Body) < 1+int(f.Body[0])+15+20 {
				return Reply{None: true} // too short for its fixed fields: logged, not answered (by design)
			}
			code = f.Body[1 : 1+int(f.Body[0])]
		}
		if bytes.Equal(code, []byte(phone)) {
			return general(0)
		}
		return general(1)
	case 0x0801:
		if len(f.Body) < 4 {
			return Reply{ID: 0x8800, BodyFree: true}
		}
		return Reply{ID: 0x8800, Body: append([]byte(nil), f.Body[:4]...), BodyPrefix: true}
	case 0x1003:
		return Reply{ID: 0x8001, BodyFree: true}
	case 0x1212:
		// 0x9212: name length, name, type, result 0, count 0
		if len(f.Body) < 1 || len(f.Body) < 2+int(f.Body[0]) {
			return Reply{ID: 0x9212, BodyFree: true}
		}
		n := int(f.Body[0])
		b := append([]byte(nil), f.Body[:2+n]...)
		return Reply{ID: 0x9212, Body: append(b, 0, 0)}
	}
	return Reply{None: true}
}

// IsDefaultID tells whether the server handles id by default.
func IsDefaultID(id uint16) bool {
	for _, x := range DefaultIDs {
		if x == id {
			return true
		}
	}
	return false
}
