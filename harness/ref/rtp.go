package ref

import "errors"

// RTP is one JT/T 1078 packet (table 19) as plain data.
type RTP struct {
	Attr     byte // V(2) P(1) X(1) CC(4)
	MPT      byte // M(1) PT(7)
	Seq      uint16
	SimBCD   []byte // 6 bytes
	Channel  byte
	DataType byte // high nibble of byte 15
	SubMark  byte // low nibble
	Time     uint64
	IFrame   uint16
	Frame    uint16
	Payload  []byte
}

func (p RTP) HasTime() bool      { return p.DataType != 4 }
func (p RTP) HasIntervals() bool { return p.DataType <= 2 }

func (p RTP) HeaderLen() int {
	n := 16 + 2
	if p.HasTime() {
		n += 8
	}
	if p.HasIntervals() {
		n += 4
	}
	return n
}

// Encode lays the packet out as the standard prescribes; the length field is
// len(Payload) unless lenOverride >= 0.
func (p RTP) Encode() []byte {
	b := []byte{0x30, 0x31, 0x63, 0x64, p.Attr, p.MPT, byte(p.Seq >> 8), byte(p.Seq)}
	b = append(b, p.SimBCD...)
	b = append(b, p.Channel, p.DataType<<4|p.SubMark&0x0F)
	if p.HasTime() {
		for i := 7; i >= 0; i-- {
			b = append(b, byte(p.Time>>(8*uint(i))))
		}
	}
	if p.HasIntervals() {
		b = append(b, byte(p.IFrame>>8), byte(p.IFrame), byte(p.Frame>>8), byte(p.Frame))
	}
	b = append(b, byte(len(p.Payload)>>8), byte(len(p.Payload)))
	return append(b, p.Payload...)
}

var (
	ErrRTPShortHead = errors.New("ref: rtp header too short")
	ErrRTPShortBody = errors.New("ref: rtp body too short")
	ErrRTPMarker    = errors.New("ref: rtp marker missing")
)

// DecodeRTP reads one packet from the front of data.
func DecodeRTP(data []byte) (p RTP, rest []byte, err error) {
	if len(data) < 16 {
		return p, data, ErrRTPShortHead
	}
	if data[0] != 0x30 || data[1] != 0x31 || data[2] != 0x63 || data[3] != 0x64 {
		return p, data, ErrRTPMarker
	}
	p.Attr, p.MPT = data[4], data[5]
	p.Seq = uint16(data[6])<<8 | uint16(data[7])
	p.SimBCD = append([]byte(nil), data[8:14]...)
	p.Channel = data[14]
	p.DataType, p.SubMark = data[15]>>4, data[15]&0x0F
	if len(data) < p.HeaderLen() {
		return p, data, ErrRTPShortHead
	}
	pos := 16
	if p.HasTime() {
		for i := 0; i < 8; i++ {
			p.Time = p.Time<<8 | uint64(data[pos+i])
		}
		pos += 8
	}
	if p.HasIntervals() {
		p.IFrame = uint16(data[pos])<<8 | uint16(data[pos+1])
		p.Frame = uint16(data[pos+2])<<8 | uint16(data[pos+3])
		pos += 4
	}
	n := int(data[pos])<<8 | int(data[pos+1])
	pos += 2
	if len(data)-pos < n {
		return p, data, ErrRTPShortBody
	}
	p.Payload = append([]byte(nil), data[pos:pos+n]...)
	return p, data[pos+n:], nil
}
