package ref

import (
	"errors"
	"fmt"
)

// Reference reading of the location report of JT/T 808-2013/2019 (property
// C08). Everything here is the standard's tables written down as data plus a
// table interpreter; nothing is derived from the parsing code under test. The
// only link to the library is the column "Field": the name of the exported Go
// field that documents (by its comment) the same table entry. It is resolved
// by reflection in the check, entry by entry.

// ---------------------------------------------------------------- table 23

// LocBase is table 23 (位置基本信息), 28 bytes.
type LocBase struct {
	Alarm     uint32  // offset 0  DWORD 报警标志
	Status    uint32  // offset 4  DWORD 状态
	Latitude  uint32  // offset 8  DWORD 纬度, degrees * 10^6
	Longitude uint32  // offset 12 DWORD 经度, degrees * 10^6
	Altitude  uint16  // offset 16 WORD  高程, m
	Speed     uint16  // offset 18 WORD  速度, 1/10 km/h
	Direction uint16  // offset 20 WORD  方向, 0..359
	Time      [6]byte // offset 22 BCD[6] YY-MM-DD-hh-mm-ss
}

// LocBaseLen is the size of table 23.
const LocBaseLen = 28

func be(b []byte) uint64 {
	var v uint64
	for _, x := range b {
		v = v<<8 | uint64(x)
	}
	return v
}

// ReadLocBase reads table 23 from the first 28 bytes of b.
func ReadLocBase(b []byte) (LocBase, bool) {
	if len(b) < LocBaseLen {
		return LocBase{}, false
	}
	l := LocBase{
		Alarm: uint32(be(b[0:4])), Status: uint32(be(b[4:8])),
		Latitude: uint32(be(b[8:12])), Longitude: uint32(be(b[12:16])),
		Altitude: uint16(be(b[16:18])), Speed: uint16(be(b[18:20])), Direction: uint16(be(b[20:22])),
	}
	copy(l.Time[:], b[22:28])
	return l, true
}

// Bytes writes table 23.
func (l LocBase) Bytes() []byte {
	b := make([]byte, 0, LocBaseLen)
	put := func(v uint64, n int) {
		for i := n - 1; i >= 0; i-- {
			b = append(b, byte(v>>(8*uint(i))))
		}
	}
	put(uint64(l.Alarm), 4)
	put(uint64(l.Status), 4)
	put(uint64(l.Latitude), 4)
	put(uint64(l.Longitude), 4)
	put(uint64(l.Altitude), 2)
	put(uint64(l.Speed), 2)
	put(uint64(l.Direction), 2)
	return append(b, l.Time[:]...)
}

// TimeIsBCD tells whether all twelve nibbles of the time are decimal digits
// (only then does the standard assign a reading).
func (l LocBase) TimeIsBCD() bool {
	for _, x := range l.Time {
		if x>>4 > 9 || x&15 > 9 {
			return false
		}
	}
	return true
}

// TimeString renders the BCD time the way the library documents DateTime:
// "20YY-MM-DD hh:mm:ss" (two decimal digits per byte, high nibble first).
func (l LocBase) TimeString() string {
	d := func(i int) string { return fmt.Sprintf("%d%d", l.Time[i]>>4, l.Time[i]&15) }
	return "20" + d(0) + "-" + d(1) + "-" + d(2) + " " + d(3) + ":" + d(4) + ":" + d(5)
}

// ------------------------------------------------------- tables 24 and 25

// BitEntry is one row of a bit table.
type BitEntry struct {
	Bit     int
	Meaning string // the standard's wording
	Field   string // exported Go field documenting this meaning
	Since   int    // 2011/2013 or 2019
}

// AlarmBits is table 24 (报警标志位定义).
var AlarmBits = []BitEntry{
	{0, "紧急报警，触动报警开关后触发", "EmergencyAlarm", 2013},
	{1, "超速报警", "OverSpeed", 2013},
	{2, "疲劳驾驶", "FatigueDriving", 2013},
	{3, "危险预警", "DangerousAlarm", 2013},
	{4, "GNSS模块发生故障", "GNSSModuleFault", 2013},
	{5, "GNSS天线未接或被剪断", "GNSSAntennaFault", 2013},
	{6, "GNSS天线短路", "GNSSAntennaShortCircuit", 2013},
	{7, "终端主电源欠压", "TerminalPowerSupply", 2013},
	{8, "终端主电源掉电", "TerminalPowerSupplyShutdown", 2013},
	{9, "终端LCD或显示器故障", "TerminalLCDFault", 2013},
	{10, "TTS模块故障", "TTSModuleFault", 2013},
	{11, "摄像头故障", "CameraFault", 2013},
	{12, "道路运输证IC卡模块故障", "ICCardModuleFault", 2013},
	{13, "超速预警", "OverSpeedAlarm", 2013},
	{14, "疲劳驾驶预警", "FatigueDrivingAlarm", 2013},
	{15, "违规行驶报警", "ViolationDrivingAlarm", 2019},
	{16, "胎压预警", "TirePressureAlarm", 2019},
	{17, "右转盲区异常报警", "RightTurnBlindAreaAlarm", 2019},
	{18, "当天累计驾驶超时", "DrivingTimeout", 2013},
	{19, "超时停车", "OverTimeStop", 2013},
	{20, "进出区域", "InOutArea", 2013},
	{21, "进出路线", "InOutLine", 2013},
	{22, "路段行驶时间不足/过长", "SectionDrivingTime", 2013},
	{23, "路线偏离报警", "LineDeviation", 2013},
	{24, "车辆VSS故障", "VSSFault", 2013},
	{25, "车辆油量异常", "OilLevelAbnormality", 2013},
	{26, "车辆被盗(通过车辆防盗器)", "StealCar", 2013},
	{27, "车辆非法点火", "LaneDeviation", 2013}, // the field's comment says 车辆非法点火
	{28, "车辆非法位移", "LaneOffset", 2013},    // the field's comment says 车辆非法位移
	{29, "碰撞预警 (2019: 碰撞侧翻报警)", "CollisionAlarm", 2013},
	{30, "侧翻预警", "SideSlipAlarm", 2013},
	{31, "非法开门报警", "LaneOpeningAlarm", 2013},
}

// StatusBits is table 25 (状态位定义), single-bit rows only. Bits 8-9 (载荷
// 00 空车 / 01 半载 / 10 保留 / 11 满载) are a two-bit field and bits 23-31 are
// reserved; neither is claimed by C08.
var StatusBits = []BitEntry{
	{0, "0:ACC关 1:ACC开", "ACC", 2013},
	{1, "0:未定位 1:定位", "Location", 2013},
	{2, "0:北纬 1:南纬", "South", 2013},
	{3, "0:东经 1:西经", "East", 2013}, // the field documents 东西经 0-东经 1-西经
	{4, "0:运营状态 1:停运状态", "Suspended", 2013},
	{5, "0:经纬度未经保密插件加密 1:已加密", "Encryption", 2013},
	{6, "1:紧急刹车系统采集的前撞预警", "EmergencyBrake", 2019},
	{7, "1:车道偏移预警", "LaneOffset", 2019},
	{10, "0:车辆油路正常 1:车辆油路断开", "Oil", 2013},
	{11, "0:车辆电路正常 1:车辆电路断开", "Electricity", 2013},
	{12, "0:车门解锁 1:车门加锁", "VehicleDoor", 2013},
	{13, "0:门1关 1:门1开(前门)", "FrontDoor", 2013},
	{14, "0:门2关 1:门2开(中门)", "MiddleDoor", 2013},
	{15, "0:门3关 1:门3开(后门)", "BackDoor", 2013},
	{16, "0:门4关 1:门4开(驾驶席门)", "DriverDoor", 2013},
	{17, "0:门5关 1:门5开(自定义)", "CustomDoor", 2013},
	{18, "1:使用GPS卫星进行定位", "UseGPS", 2013},
	{19, "1:使用北斗卫星进行定位", "UseBD", 2013},
	{20, "1:使用GLONASS卫星进行定位", "UseGLONASS", 2013},
	{21, "1:使用Galileo卫星进行定位", "UseGalileo", 2013},
	{22, "0:车辆处于停止状态 1:车辆处于行驶状态", "VehicleRunning", 2019},
}

// StatusLoadBits are the bits of the two-bit load field of table 25.
var StatusLoadBits = [2]int{8, 9}

// ExtVehicleBits is table 31 (扩展车辆信号状态位), bits 15-31 reserved.
var ExtVehicleBits = []BitEntry{
	{0, "近光灯信号", "LowBeamSignal", 2013},
	{1, "远光灯信号", "HighBeamSignal", 2013},
	{2, "右转向灯信号", "RightTurnSignal", 2013},
	{3, "左转向灯信号", "LeftTurnSignal", 2013},
	{4, "制动信号", "BrakeSignal", 2013},
	{5, "倒档信号", "ReverseGearSignal", 2013},
	{6, "雾灯信号", "FogLightSignal", 2013},
	{7, "示廓灯", "ClearanceLights", 2013},
	{8, "喇叭信号", "HornSignal", 2013},
	{9, "空调状态", "AirConditionerSignal", 2013},
	{10, "空挡信号", "NeutralSignal", 2013},
	{11, "缓速器工作", "RetarderWork", 2013},
	{12, "ABS工作", "ABSWork", 2013},
	{13, "加热器工作", "HeaterWork", 2013},
	{14, "离合器状态", "ClutchStatus", 2013},
}

// IOStatusBits is table 32 (IO状态位), bits 2-15 reserved.
var IOStatusBits = []BitEntry{
	{0, "深度休眠状态", "DeepSleepStatus", 2013},
	{1, "休眠状态", "SleepStatus", 2013},
}

// ---------------------------------------------------------------- table 27

// ItemSpec is one row of table 27 (附加信息定义).
type ItemSpec struct {
	ID   byte
	Name string
	Lens []int // admissible lengths
}

// ItemSpecs lists the standard additional-information items claimed by C08.
var ItemSpecs = []ItemSpec{
	{0x01, "里程 DWORD 1/10km", []int{4}},
	{0x02, "油量 WORD 1/10L", []int{2}},
	{0x03, "行驶记录功能获取的速度 WORD 1/10km/h", []int{2}},
	{0x04, "需要人工确认报警事件的ID WORD", []int{2}},
	{0x05, "胎压 BYTE[30]", []int{30}},
	{0x06, "车厢温度 WORD, 最高位为1表示负数", []int{2}},
	{0x11, "超速报警附加信息 表28: 位置类型 BYTE [+ 区域或路段ID DWORD]", []int{1, 5}},
	{0x12, "进出区域/路线报警附加信息 表29: 位置类型 BYTE, 区域或线路ID DWORD, 方向 BYTE", []int{6}},
	{0x13, "路段行驶时间不足/过长报警附加信息 表30: 路段ID DWORD, 路段行驶时间 WORD, 结果 BYTE", []int{7}},
	{0x25, "扩展车辆信号状态位 DWORD 表31", []int{4}},
	{0x2A, "IO状态位 WORD 表32", []int{2}},
	{0x2B, "模拟量 DWORD bit0-15 AD0 bit16-31 AD1", []int{4}},
	{0x30, "无线通信网络信号强度 BYTE", []int{1}},
	{0x31, "GNSS定位卫星数 BYTE", []int{1}},
}

// ItemSpecOf returns the table row of id (nil: not a standard item of C08).
func ItemSpecOf(id byte) *ItemSpec {
	for i := range ItemSpecs {
		if ItemSpecs[i].ID == id {
			return &ItemSpecs[i]
		}
	}
	return nil
}

// ItemLenOK tells whether n is an admissible length for id (unknown IDs admit
// every length).
func ItemLenOK(id byte, n int) bool {
	s := ItemSpecOf(id)
	if s == nil {
		return true
	}
	for _, l := range s.Lens {
		if l == n {
			return true
		}
	}
	return false
}

// LocItem is one additional-information item as framed on the wire.
type LocItem struct {
	ID      byte
	Content []byte // length byte == len(Content)
}

// Bytes frames the item: ID, length, content.
func (it LocItem) Bytes() []byte {
	return append([]byte{it.ID, byte(len(it.Content))}, it.Content...)
}

// ErrItemFraming reports an item list that is not a sequence of complete
// ID/length/content triples (outside C08).
var ErrItemFraming = errors.New("item list is not a sequence of complete items")

// SplitLocItems walks the TLV list.
func SplitLocItems(b []byte) ([]LocItem, error) {
	var out []LocItem
	for len(b) > 0 {
		if len(b) < 2 || len(b) < 2+int(b[1]) {
			return out, ErrItemFraming
		}
		n := int(b[1])
		out = append(out, LocItem{ID: b[0], Content: b[2 : 2+n]})
		b = b[2+n:]
	}
	return out, nil
}

// ItemField is one value the standard assigns to an item's bytes. Path names
// the exported Go field (relative to model.AdditionContent) that documents the
// same value. Flag rows have IsFlag set (Value 0/1).
type ItemField struct {
	Path   string
	Value  int64
	IsFlag bool
	Bit    int
	Note   string
}

// ItemReading is the standard's reading of one admissible item.
type ItemReading struct {
	Fields []ItemField
	// Tyres is set for item 0x05: the 30 pressure bytes in wheel order.
	Tyres []byte
	// Unclaimed explains why nothing beyond acceptance is claimed (e.g. table
	// 28 with a length that does not fit its own type byte).
	Unclaimed string
}

// ReadLocItem interprets an item with an admissible length.
func ReadLocItem(it LocItem) ItemReading {
	c := it.Content
	u := func(path string, b []byte) ItemField { return ItemField{Path: path, Value: int64(be(b))} }
	flags := func(prefix string, tbl []BitEntry, v uint64) []ItemField {
		var fs []ItemField
		for _, e := range tbl {
			fs = append(fs, ItemField{Path: prefix + "." + e.Field, Value: int64(v >> uint(e.Bit) & 1), IsFlag: true, Bit: e.Bit, Note: e.Meaning})
		}
		return fs
	}
	switch it.ID {
	case 0x01:
		return ItemReading{Fields: []ItemField{u("Mile", c)}}
	case 0x02:
		return ItemReading{Fields: []ItemField{u("Oil", c)}}
	case 0x03:
		return ItemReading{Fields: []ItemField{u("Speed", c)}}
	case 0x04:
		return ItemReading{Fields: []ItemField{u("ManualAlarm", c)}}
	case 0x05:
		return ItemReading{Tyres: c}
	case 0x06:
		// 取值范围 -32767..+32767, 最高位为1表示负数 (sign and magnitude)
		w := int64(be(c))
		v := w & 0x7FFF
		if w&0x8000 != 0 {
			v = -v
		}
		return ItemReading{Fields: []ItemField{{Path: "CarTemperature", Value: v, Note: "sign-magnitude"}}}
	case 0x11:
		// table 28: 位置类型 BYTE; 区域或路段ID DWORD, 若位置类型为0无该字段
		switch {
		case len(c) == 1 && c[0] == 0:
			return ItemReading{Fields: []ItemField{u("OverSpeedAlarm.LocationType", c[0:1])}}
		case len(c) == 5 && c[0] != 0:
			return ItemReading{Fields: []ItemField{u("OverSpeedAlarm.LocationType", c[0:1]), u("OverSpeedAlarm.AreaID", c[1:5])}}
		case len(c) == 5:
			return ItemReading{Fields: []ItemField{u("OverSpeedAlarm.LocationType", c[0:1])}, Unclaimed: "type 0 with an ID field present"}
		default:
			return ItemReading{Unclaimed: "type != 0 without the ID field"}
		}
	case 0x12:
		return ItemReading{Fields: []ItemField{u("AreaAlarm.LocationType", c[0:1]), u("AreaAlarm.AreaID", c[1:5]), u("AreaAlarm.Direction", c[5:6])}}
	case 0x13:
		return ItemReading{Fields: []ItemField{u("DrivingTimeInsufficientAlarm.RoadSectionID", c[0:4]),
			u("DrivingTimeInsufficientAlarm.RoadSectionDrivingTimeSecond", c[4:6]), u("DrivingTimeInsufficientAlarm.Result", c[6:7])}}
	case 0x25:
		return ItemReading{Fields: append([]ItemField{u("ExtendVehicleStatus.Value", c)}, flags("ExtendVehicleStatus", ExtVehicleBits, be(c))...)}
	case 0x2A:
		return ItemReading{Fields: append([]ItemField{u("IOStatus.Value", c)}, flags("IOStatus", IOStatusBits, be(c))...)}
	case 0x2B:
		return ItemReading{Fields: []ItemField{u("Analog", c)}}
	case 0x30:
		return ItemReading{Fields: []ItemField{u("WIFISignalStrength", c)}}
	case 0x31:
		return ItemReading{Fields: []ItemField{u("GNSSPositionNum", c)}}
	}
	return ItemReading{Unclaimed: "not a standard item"}
}

// ---------------------------------------------------------------- carriers

// Loc is one location body: table 23 followed by the item list.
type Loc struct {
	Base  LocBase
	Raw   []byte // the whole body (28 bytes + items)
	Items []LocItem
	// HasItems is false for the 0x0801 embedding, which carries table 23 only.
	HasItems bool
}

// ErrCarrier reports a carrier body outside C08 (framing of the carrier
// itself is broken or a location body is shorter than table 23).
var ErrCarrier = errors.New("carrier framing outside C08")

// SplitLoc reads a location body.
func SplitLoc(b []byte) (Loc, error) {
	base, ok := ReadLocBase(b)
	if !ok {
		return Loc{}, ErrCarrier
	}
	items, err := SplitLocItems(b[LocBaseLen:])
	if err != nil {
		return Loc{}, err
	}
	return Loc{Base: base, Raw: b, Items: items, HasItems: true}, nil
}

// Batch0704 is the reading of a 0x0704 body (定位数据批量上传): count WORD, type
// BYTE, then count times length WORD + location body.
type Batch0704 struct {
	Count int
	Type  byte
	Locs  []Loc
}

// Split0704 reads a 0x0704 body.
func Split0704(b []byte) (Batch0704, error) {
	if len(b) < 3 {
		return Batch0704{}, ErrCarrier
	}
	out := Batch0704{Count: int(be(b[0:2])), Type: b[2]}
	b = b[3:]
	for i := 0; i < out.Count; i++ {
		if len(b) < 2 || len(b) < 2+int(be(b[0:2])) {
			return out, ErrCarrier
		}
		n := int(be(b[0:2]))
		l, err := SplitLoc(b[2 : 2+n])
		if err != nil {
			return out, err
		}
		out.Locs = append(out.Locs, l)
		b = b[2+n:]
	}
	if len(b) != 0 || out.Count == 0 {
		return out, ErrCarrier
	}
	return out, nil
}

// Build0704 frames location bodies into a 0x0704 body.
func Build0704(typ byte, locs ...[]byte) []byte {
	b := []byte{byte(len(locs) >> 8), byte(len(locs)), typ}
	for _, l := range locs {
		b = append(b, byte(len(l)>>8), byte(len(l)))
		b = append(b, l...)
	}
	return b
}

// Media0801 is the reading of a 0x0801 body (多媒体数据上传): multimedia ID DWORD,
// type, format, event, channel BYTE each, table 23 at bytes 8..35, package.
type Media0801 struct {
	ID                           uint32
	Type, Format, Event, Channel byte
	Loc                          Loc
	Package                      []byte
}

// Split0801 reads a 0x0801 body.
func Split0801(b []byte) (Media0801, error) {
	if len(b) < 8+LocBaseLen {
		return Media0801{}, ErrCarrier
	}
	base, _ := ReadLocBase(b[8:36])
	return Media0801{ID: uint32(be(b[0:4])), Type: b[4], Format: b[5], Event: b[6], Channel: b[7],
		Loc: Loc{Base: base, Raw: b[8:36]}, Package: b[36:]}, nil
}

// Build0801 frames a 0x0801 body around a 28-byte location.
func Build0801(id uint32, typ, format, event, channel byte, loc28 []byte, pkg []byte) []byte {
	b := []byte{byte(id >> 24), byte(id >> 16), byte(id >> 8), byte(id), typ, format, event, channel}
	b = append(b, loc28[:LocBaseLen]...)
	return append(b, pkg...)
}
