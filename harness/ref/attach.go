package ref

// Su-biao alarm-attachment layouts (0x1210 / 0x1211 / 0x1212 bodies and the
// "01cd" stream chunk), per dialect. Dialect numbers follow
// consts.ActiveSafetyType: 1 JS, 2 HLJ, 3 GD, 4 HN, 5 SC.

type AttFile struct {
	Name string
	Size uint32
}

const (
	DialectJS  = 1
	DialectHLJ = 2
	DialectGD  = 3
	DialectHN  = 4
	DialectSC  = 5
)

func attIDLen(d int) int {
	switch d {
	case DialectHLJ, DialectGD, DialectSC:
		return 30
	}
	return 7
}

func attSignLen(d int) int {
	switch d {
	case DialectHLJ:
		return 38
	case DialectGD:
		return 40
	case DialectHN:
		return 32
	case DialectSC:
		return 39
	}
	return 16
}

func padTo(s string, n int) []byte {
	b := make([]byte, n)
	copy(b, s)
	return b
}

// AlarmSign builds the alarm identification block of a dialect.
func AlarmSign(d int, terminalID string) []byte {
	b := padTo(terminalID, attIDLen(d))
	b = append(b, 0x24, 0x10, 0x01, 0x23, 0x59, 0x59) // time
	b = append(b, 0x01, 0x02)                         // serial, attachment count
	for len(b) < attSignLen(d) {
		b = append(b, 0)
	}
	return b
}

// Body1210 builds an alarm-attachment announcement.
func Body1210(d int, alarmID string, files []AttFile) []byte {
	var b []byte
	if d != DialectHLJ {
		b = append(b, padTo("term001", attIDLen(d))...)
	}
	b = append(b, AlarmSign(d, "term001")...)
	b = append(b, padTo(alarmID, 32)...)
	b = append(b, 0x00, byte(len(files)))
	for _, f := range files {
		b = append(b, byte(len(f.Name)))
		b = append(b, f.Name...)
		b = append(b, byte(f.Size>>24), byte(f.Size>>16), byte(f.Size>>8), byte(f.Size))
	}
	return b
}

// Body1211 builds a file-info (0x1211) or upload-complete (0x1212) body.
func Body1211(name string, typ byte, size uint32) []byte {
	b := []byte{byte(len(name))}
	b = append(b, name...)
	b = append(b, typ)
	return append(b, byte(size>>24), byte(size>>16), byte(size>>8), byte(size))
}

// StreamChunkLen builds a stream chunk whose length field is declared freely.
func StreamChunkLen(d int, name string, offset, declared uint32, data []byte) []byte {
	b := []byte{0x30, 0x31, 0x63, 0x64}
	if d == DialectHLJ {
		b = append(b, byte(len(name)))
		b = append(b, name...)
	} else {
		b = append(b, padTo(name, 50)...)
	}
	b = append(b, byte(offset>>24), byte(offset>>16), byte(offset>>8), byte(offset))
	b = append(b, byte(declared>>24), byte(declared>>16), byte(declared>>8), byte(declared))
	return append(b, data...)
}

// StreamChunk builds a well-formed stream chunk.
func StreamChunk(d int, name string, offset uint32, data []byte) []byte {
	return StreamChunkLen(d, name, offset, uint32(len(data)), data)
}

// Reply9212 is the expected body of the completion response.
func Reply9212(name string, typ byte, missing [][2]uint32) []byte {
	b := []byte{byte(len(name))}
	b = append(b, name...)
	b = append(b, typ)
	if len(missing) == 0 {
		return append(b, 0, 0)
	}
	b = append(b, 1, byte(len(missing)))
	for _, m := range missing {
		b = append(b, byte(m[0]>>24), byte(m[0]>>16), byte(m[0]>>8), byte(m[0]), byte(m[1]>>24), byte(m[1]>>16), byte(m[1]>>8), byte(m[1]))
	}
	return b
}
