// Package ref holds the reference models: boring, independent readings of
// JT/T 808-2013/2019, JT/T 1078 and the Su-biao attachment layouts.
package ref

import (
	"errors"
	"strings"
)

// Header is the standard's message header (table 2/3) as plain data.
type Header struct {
	ID         uint16
	Prop       uint16 // raw property word
	V2019      bool   // bit 14
	Fragmented bool   // bit 13
	Encrypt    uint8  // bits 10..12
	BodyLen    int    // bits 0..9
	VersionNo  byte   // protocol version byte (2019 only)
	PhoneBCD   []byte // 6 (2013) or 10 (2019) bytes
	Serial     uint16
	Total      uint16 // package total (fragmented only)
	Number     uint16 // package number (fragmented only)
}

// Frame is a decoded frame.
type Frame struct {
	Header
	Body     []byte
	Checksum byte
}

// PhoneString renders a BCD phone the way the library documents it: hex digits
// with leading zeros stripped (all zeros stay as they are).
func PhoneString(bcd []byte) string {
	const hexd = "0123456789abcdef"
	var b strings.Builder
	for _, x := range bcd {
		b.WriteByte(hexd[x>>4])
		b.WriteByte(hexd[x&15])
	}
	s := b.String()
	t := strings.TrimLeft(s, "0")
	if t == "" {
		return s
	}
	return t
}

// Escape applies 0x7E -> 7D 02, 0x7D -> 7D 01 and adds the delimiters.
func Escape(payload []byte) []byte {
	out := make([]byte, 0, len(payload)+8)
	out = append(out, 0x7E)
	for _, b := range payload {
		switch b {
		case 0x7E:
			out = append(out, 0x7D, 0x02)
		case 0x7D:
			out = append(out, 0x7D, 0x01)
		default:
			out = append(out, b)
		}
	}
	return append(out, 0x7E)
}

func Xor(b []byte) byte {
	var c byte
	for _, x := range b {
		c ^= x
	}
	return c
}

// EncodeRaw builds header+body+checksum (unescaped payload).
func EncodeRaw(h Header, body []byte) []byte {
	prop := uint16(len(body)) & 0x3FF
	prop |= uint16(h.Encrypt&7) << 10
	if h.Fragmented {
		prop |= 1 << 13
	}
	if h.V2019 {
		prop |= 1 << 14
	}
	p := []byte{byte(h.ID >> 8), byte(h.ID), byte(prop >> 8), byte(prop)}
	if h.V2019 {
		p = append(p, h.VersionNo)
	}
	p = append(p, h.PhoneBCD...)
	p = append(p, byte(h.Serial>>8), byte(h.Serial))
	if h.Fragmented {
		p = append(p, byte(h.Total>>8), byte(h.Total), byte(h.Number>>8), byte(h.Number))
	}
	p = append(p, body...)
	return append(p, Xor(p))
}

// Encode builds a complete escaped frame.
func Encode(h Header, body []byte) []byte { return Escape(EncodeRaw(h, body)) }

var (
	ErrDelim    = errors.New("ref: missing delimiter")
	ErrEscape   = errors.New("ref: invalid escape pair")
	ErrChecksum = errors.New("ref: checksum mismatch")
	ErrShort    = errors.New("ref: header incomplete")
	ErrLength   = errors.New("ref: body length mismatch")
	ErrInterior = errors.New("ref: interior delimiter")
)

// Unescape validates delimiters and escape pairs. The one tolerated deviation
// (C02): an unescaped 0x7D as the final payload byte.
func Unescape(s []byte) ([]byte, error) {
	if len(s) < 3 || s[0] != 0x7E || s[len(s)-1] != 0x7E {
		return nil, ErrDelim
	}
	in := s[1 : len(s)-1]
	out := make([]byte, 0, len(in))
	for i := 0; i < len(in); i++ {
		b := in[i]
		switch {
		case b == 0x7E:
			return nil, ErrInterior
		case b == 0x7D:
			if i == len(in)-1 {
				out = append(out, 0x7D) // tolerated: raw 0x7D as last (checksum) byte
				continue
			}
			switch in[i+1] {
			case 0x01:
				out = append(out, 0x7D)
			case 0x02:
				out = append(out, 0x7E)
			default:
				return nil, ErrEscape
			}
			i++
		default:
			out = append(out, b)
		}
	}
	return out, nil
}

// Decode is the reference validator/decoder of C02.
func Decode(s []byte) (*Frame, error) {
	p, err := Unescape(s)
	if err != nil {
		return nil, err
	}
	if Xor(p) != 0 {
		return nil, ErrChecksum
	}
	if len(p) < 4 {
		return nil, ErrShort
	}
	var f Frame
	f.ID = uint16(p[0])<<8 | uint16(p[1])
	f.Prop = uint16(p[2])<<8 | uint16(p[3])
	f.V2019 = f.Prop&(1<<14) != 0
	f.Fragmented = f.Prop&(1<<13) != 0
	f.Encrypt = uint8(f.Prop>>10) & 7
	f.BodyLen = int(f.Prop & 0x3FF)
	pos := 4
	phoneLen := 6
	if f.V2019 {
		phoneLen = 10
		if len(p) < pos+1 {
			return nil, ErrShort
		}
		f.VersionNo = p[pos]
		pos++
	}
	if len(p) < pos+phoneLen+2 {
		return nil, ErrShort
	}
	f.PhoneBCD = append([]byte(nil), p[pos:pos+phoneLen]...)
	pos += phoneLen
	f.Serial = uint16(p[pos])<<8 | uint16(p[pos+1])
	pos += 2
	if f.Fragmented {
		if len(p) < pos+4 {
			return nil, ErrShort
		}
		f.Total = uint16(p[pos])<<8 | uint16(p[pos+1])
		f.Number = uint16(p[pos+2])<<8 | uint16(p[pos+3])
		pos += 4
	}
	if pos+f.BodyLen+1 != len(p) {
		return nil, ErrLength
	}
	f.Body = append([]byte(nil), p[pos:pos+f.BodyLen]...)
	f.Checksum = p[len(p)-1]
	return &f, nil
}

// Split cuts a byte stream into frames (delimiter to delimiter), the
// reference deframer of C04. Bytes outside frames are returned as junk.
func Split(stream []byte) (frames [][]byte, rest []byte) {
	i := 0
	for i < len(stream) {
		if stream[i] != 0x7E {
			i++
			continue
		}
		j := i + 1
		for j < len(stream) && stream[j] != 0x7E {
			j++
		}
		if j >= len(stream) {
			return frames, stream[i:]
		}
		if j == i+1 { // back-to-back delimiters: the second one starts a frame
			i = j
			continue
		}
		frames = append(frames, stream[i:j+1])
		i = j + 1
	}
	return frames, nil
}

// BCD encodes a decimal string right-aligned into n bytes.
func BCD(digits string, n int) []byte {
	for len(digits) < 2*n {
		digits = "0" + digits
	}
	digits = digits[len(digits)-2*n:]
	out := make([]byte, n)
	for i := 0; i < n; i++ {
		out[i] = (digits[2*i]-'0')<<4 | (digits[2*i+1] - '0')
	}
	return out
}

// TermHeader is a convenience constructor for terminal-originated frames.
func TermHeader(id uint16, v2019 bool, phone string, serial uint16) Header {
	h := Header{ID: id, V2019: v2019, Serial: serial}
	if v2019 {
		h.VersionNo = 1
		h.PhoneBCD = BCD(phone, 10)
	} else {
		h.PhoneBCD = BCD(phone, 6)
	}
	return h
}
