package ref

import (
	"bytes"
	"sort"
)

// Reference material for C07 (message body round trip): a segment builder
// that writes the primitive types of JT/T 808 section 4.1 (BYTE, WORD, DWORD,
// BCD[n], BYTE[n], STRING) and remembers which field each byte belongs to,
// the table of terminal parameter IDs with their types (JT/T 808-2013 table
// 12, JT/T 808-2019 table 13) and a small table of GBK texts used by the
// generators. Nothing in this file looks at the library.

// Seg07 is one named field of a body.
type Seg07 struct {
	Name string
	B    []byte
}

// Body07 is a body under construction.
type Body07 struct{ Segs []Seg07 }

func (b *Body07) put(name string, p []byte) { b.Segs = append(b.Segs, Seg07{name, p}) }

// U8 writes a BYTE.
func (b *Body07) U8(name string, v byte) { b.put(name, []byte{v}) }

// U16 writes a WORD (big endian, as the standard's network byte order).
func (b *Body07) U16(name string, v uint16) { b.put(name, []byte{byte(v >> 8), byte(v)}) }

// U32 writes a DWORD.
func (b *Body07) U32(name string, v uint32) {
	b.put(name, []byte{byte(v >> 24), byte(v >> 16), byte(v >> 8), byte(v)})
}

// U64 writes a 64-bit flag field.
func (b *Body07) U64(name string, v uint64) {
	p := make([]byte, 8)
	for i := 0; i < 8; i++ {
		p[i] = byte(v >> (56 - 8*i))
	}
	b.put(name, p)
}

// Raw writes bytes as they are.
func (b *Body07) Raw(name string, p []byte) { b.put(name, append([]byte{}, p...)) }

// Fixed writes BYTE[width]: the text followed by 0x00 up to width.
// ok=false when the text does not fit (such a value is outside the domain).
func (b *Body07) Fixed(name string, text []byte, width int) bool {
	if len(text) > width {
		return false
	}
	p := make([]byte, width)
	copy(p, text)
	b.put(name, p)
	return true
}

// Time writes BCD[6] from "20YY-MM-DD hh:mm:ss".
func (b *Body07) Time(name string, s string) bool {
	p, ok := BCDTime07(s)
	if !ok {
		return false
	}
	b.put(name, p)
	return true
}

// Bytes is the whole body.
func (b *Body07) Bytes() []byte {
	out := []byte{}
	for _, s := range b.Segs {
		out = append(out, s.B...)
	}
	return out
}

// FieldAt names the field that holds offset off ("<end>" beyond the body).
func (b *Body07) FieldAt(off int) string {
	for _, s := range b.Segs {
		if off < len(s.B) {
			return s.Name
		}
		off -= len(s.B)
	}
	return "<end>"
}

// BCDTime07 converts "20YY-MM-DD hh:mm:ss" (any decimal digits) to BCD[6]
// YY MM DD hh mm ss.
func BCDTime07(s string) ([]byte, bool) {
	if len(s) != 19 || s[0] != '2' || s[1] != '0' || s[4] != '-' || s[7] != '-' || s[10] != ' ' || s[13] != ':' || s[16] != ':' {
		return nil, false
	}
	out := make([]byte, 0, 6)
	for _, p := range []int{2, 5, 8, 11, 14, 17} {
		hi, lo := s[p], s[p+1]
		if hi < '0' || hi > '9' || lo < '0' || lo > '9' {
			return nil, false
		}
		out = append(out, (hi-'0')<<4|(lo-'0'))
	}
	return out, true
}

// TimeString07 is the inverse of BCDTime07 for decimal BCD bytes.
func TimeString07(b []byte) string {
	d := func(x byte) string { return string([]byte{'0' + x>>4, '0' + x&15}) }
	return "20" + d(b[0]) + "-" + d(b[1]) + "-" + d(b[2]) + " " + d(b[3]) + ":" + d(b[4]) + ":" + d(b[5])
}

// gbk07 holds the GBK bytes of the non-ASCII texts the generators use
// (GB 2312 region, values cross-checked with an independent codec).
var gbk07 = map[rune][]byte{
	'€': {0x80}, // single-byte code of the WHATWG GBK table used by golang.org/x/text
	'测': {0xB2, 0xE2}, '试': {0xCA, 0xD4}, '京': {0xBE, 0xA9}, '中': {0xD6, 0xD0},
	'文': {0xCE, 0xC4}, '粤': {0xD4, 0xC1}, '上': {0xC9, 0xCF}, '传': {0xB4, 0xAB},
}

// GBK07 encodes a text made of ASCII and the characters of the table.
func GBK07(s string) ([]byte, bool) {
	out := []byte{}
	for _, r := range s {
		if r < 0x80 {
			out = append(out, byte(r))
			continue
		}
		g, ok := gbk07[r]
		if !ok {
			return nil, false
		}
		out = append(out, g...)
	}
	return out, true
}

// ParamKind07 is the data type of a terminal parameter.
type ParamKind07 int

const (
	ParamUnknown07 ParamKind07 = iota // reserved / vendor: content is opaque
	ParamDWORD07
	ParamWORD07
	ParamBYTE07
	ParamSTRING07
	ParamBYTES4_07
	ParamBYTES8_07
)

// ParamLen07 is the content length of fixed-size kinds (-1: variable).
func ParamLen07(k ParamKind07) int {
	switch k {
	case ParamDWORD07, ParamBYTES4_07:
		return 4
	case ParamWORD07:
		return 2
	case ParamBYTE07:
		return 1
	case ParamBYTES8_07:
		return 8
	}
	return -1
}

var params07 = func() map[uint32]ParamKind07 {
	m := map[uint32]ParamKind07{}
	rng := func(k ParamKind07, from, to uint32) {
		for i := from; i <= to; i++ {
			m[i] = k
		}
	}
	// JT/T 808-2013 table 12 / JT/T 808-2019 table 13
	rng(ParamDWORD07, 0x0001, 0x0007)
	rng(ParamSTRING07, 0x0010, 0x0017)
	rng(ParamDWORD07, 0x0018, 0x0019)
	m[0x001A] = ParamSTRING07
	rng(ParamDWORD07, 0x001B, 0x001C)
	m[0x001D] = ParamSTRING07
	rng(ParamDWORD07, 0x0020, 0x0022)
	rng(ParamSTRING07, 0x0023, 0x0026) // 2019
	rng(ParamDWORD07, 0x0027, 0x0029)
	rng(ParamDWORD07, 0x002C, 0x002F)
	m[0x0030] = ParamDWORD07
	m[0x0031] = ParamWORD07
	m[0x0032] = ParamBYTES4_07 // 2019
	rng(ParamSTRING07, 0x0040, 0x0044)
	rng(ParamDWORD07, 0x0045, 0x0047)
	rng(ParamSTRING07, 0x0048, 0x0049)
	rng(ParamDWORD07, 0x0050, 0x005A)
	rng(ParamWORD07, 0x005B, 0x005E)
	rng(ParamDWORD07, 0x0064, 0x0065)
	rng(ParamDWORD07, 0x0070, 0x0074)
	m[0x0080] = ParamDWORD07
	rng(ParamWORD07, 0x0081, 0x0082)
	m[0x0083] = ParamSTRING07
	m[0x0084] = ParamBYTE07
	rng(ParamBYTE07, 0x0090, 0x0092)
	m[0x0093] = ParamDWORD07
	m[0x0094] = ParamBYTE07
	m[0x0095] = ParamDWORD07
	m[0x0100] = ParamDWORD07
	m[0x0101] = ParamWORD07
	m[0x0102] = ParamDWORD07
	m[0x0103] = ParamWORD07
	rng(ParamBYTES8_07, 0x0110, 0x01FF)
	return m
}()

// ParamKindOf07 is the standard's type of parameter id (ParamUnknown07 for
// reserved and vendor IDs).
func ParamKindOf07(id uint32) ParamKind07 { return params07[id] }

// StandardParams07 lists every parameter ID the standard defines with a type,
// ascending, with 0x0111..0x01FF (further CAN IDs) represented by 0x0111 and
// 0x01FF only.
func StandardParams07() []uint32 {
	var out []uint32
	for id := range params07 {
		if id > 0x0111 && id < 0x01FF {
			continue
		}
		out = append(out, id)
	}
	sort.Slice(out, func(i, j int) bool { return out[i] < out[j] })
	return out
}

// ParamItem07 is one parameter item: ID DWORD, length BYTE, content.
func ParamItem07(id uint32, content []byte) []byte {
	out := []byte{byte(id >> 24), byte(id >> 16), byte(id >> 8), byte(id), byte(len(content))}
	return append(out, content...)
}

// SplitParams07 cuts a parameter list into items; ok=false when the bytes are
// not a whole number of items.
func SplitParams07(b []byte) (items [][]byte, ok bool) {
	for len(b) > 0 {
		if len(b) < 5 || len(b) < 5+int(b[4]) {
			return items, false
		}
		n := 5 + int(b[4])
		items = append(items, b[:n])
		b = b[n:]
	}
	return items, true
}

// SortedParams07 returns the items of a parameter list in ascending byte
// order (the standard does not prescribe an order of items).
func SortedParams07(b []byte) ([]byte, bool) {
	items, ok := SplitParams07(b)
	if !ok {
		return nil, false
	}
	sort.SliceStable(items, func(i, j int) bool { return bytes.Compare(items[i], items[j]) < 0 })
	out := []byte{}
	for _, it := range items {
		out = append(out, it...)
	}
	return out, true
}
