// Package vsync replaces package sync in rewritten code.
package vsync

import (
	"sync"

	"verif/harness/vs"
)

type (
	Pool   = sync.Pool
	Map    = sync.Map
	Locker = sync.Locker
)

var (
	OnceFunc = sync.OnceFunc
)

type Once struct {
	id     int
	state  int // 0 idle, 1 running, 2 done
	rc     *byte
	runner *vs.Thread
}

type onceWaiter struct{ o *Once }

//go:norace
func (w onceWaiter) Ready() bool { return w.o.state != 1 }

//go:norace
func (o *Once) init() {
	if o.rc == nil {
		o.rc = vs.SyncAddr()
		o.id = vs.NewObj()
	}
}

//go:norace
func (o *Once) Do(f func()) {
	if !vs.Active() {
		if o.state == 0 {
			o.state = 1
			defer func() { o.state = 2 }()
			f()
		}
		return
	}
	o.init()
	if o.state == 1 && o.runner == vs.Self() {
		// re-entrant Do from f: deadlock in real Go
		vs.BlockForever("once-reentrant", "")
	}
	vs.Block(&vs.Op{Kind: "once", Obj: o.id, W: onceWaiter{o}})
	if o.state == 2 {
		vs.RaceAcquire(o.rc)
		return
	}
	o.state = 1
	o.runner = vs.Self()
	defer o.finish()
	f()
}

//go:norace
func (o *Once) finish() {
	o.state = 2
	o.runner = nil
	vs.RaceReleaseMerge(o.rc)
}

type Mutex struct {
	id     int
	locked bool
	rc     *byte
}

type mutexWaiter struct{ m *Mutex }

//go:norace
func (w mutexWaiter) Ready() bool { return !w.m.locked }

//go:norace
func (m *Mutex) init() {
	if m.rc == nil {
		m.rc = vs.SyncAddr()
		m.id = vs.NewObj()
	}
}

//go:norace
func (m *Mutex) Lock() {
	m.init()
	if !vs.Active() {
		m.locked = true
		return
	}
	vs.Block(&vs.Op{Kind: "lock", Obj: m.id, W: mutexWaiter{m}})
	m.locked = true
	vs.RaceAcquire(m.rc)
}

//go:norace
func (m *Mutex) TryLock() bool {
	m.init()
	if vs.Active() {
		vs.Yield("trylock", m.id)
	}
	if m.locked {
		return false
	}
	m.locked = true
	vs.RaceAcquire(m.rc)
	return true
}

//go:norace
func (m *Mutex) Unlock() {
	m.init()
	if !m.locked {
		panic("sync: unlock of unlocked mutex")
	}
	if vs.Active() {
		vs.Yield("unlock", m.id)
	}
	vs.RaceRelease(m.rc)
	m.locked = false
}

type RWMutex struct {
	id      int
	writer  bool
	readers int
	rc      *byte
	rcR     *byte
}

type rwW struct{ m *RWMutex }

//go:norace
func (w rwW) Ready() bool { return !w.m.writer && w.m.readers == 0 }

type rwR struct{ m *RWMutex }

//go:norace
func (w rwR) Ready() bool { return !w.m.writer }

//go:norace
func (m *RWMutex) init() {
	if m.rc == nil {
		m.rc = vs.SyncAddr()
		m.rcR = vs.SyncAddr()
		m.id = vs.NewObj()
	}
}

//go:norace
func (m *RWMutex) Lock() {
	m.init()
	if vs.Active() {
		vs.Block(&vs.Op{Kind: "lock", Obj: m.id, W: rwW{m}})
	}
	m.writer = true
	vs.RaceAcquire(m.rc)
	vs.RaceAcquire(m.rcR)
}

//go:norace
func (m *RWMutex) Unlock() {
	m.init()
	if !m.writer {
		panic("sync: Unlock of unlocked RWMutex")
	}
	if vs.Active() {
		vs.Yield("unlock", m.id)
	}
	vs.RaceRelease(m.rc)
	m.writer = false
}

//go:norace
func (m *RWMutex) RLock() {
	m.init()
	if vs.Active() {
		vs.Block(&vs.Op{Kind: "rlock", Obj: m.id, W: rwR{m}})
	}
	m.readers++
	vs.RaceAcquire(m.rc)
}

//go:norace
func (m *RWMutex) RUnlock() {
	m.init()
	if m.readers <= 0 {
		panic("sync: RUnlock of unlocked RWMutex")
	}
	if vs.Active() {
		vs.Yield("runlock", m.id)
	}
	vs.RaceReleaseMerge(m.rcR)
	m.readers--
}

//go:norace
func (m *RWMutex) RLocker() sync.Locker { return rlocker{m} }

type rlocker struct{ m *RWMutex }

func (r rlocker) Lock()   { r.m.RLock() }
func (r rlocker) Unlock() { r.m.RUnlock() }

type WaitGroup struct {
	id int
	n  int
	rc *byte
}

type wgWaiter struct{ w *WaitGroup }

//go:norace
func (w wgWaiter) Ready() bool { return w.w.n == 0 }

//go:norace
func (w *WaitGroup) init() {
	if w.rc == nil {
		w.rc = vs.SyncAddr()
		w.id = vs.NewObj()
	}
}

//go:norace
func (w *WaitGroup) Add(d int) {
	w.init()
	if d < 0 {
		vs.RaceReleaseMerge(w.rc)
	}
	w.n += d
	if w.n < 0 {
		panic("sync: negative WaitGroup counter")
	}
}

//go:norace
func (w *WaitGroup) Done() { w.Add(-1) }

//go:norace
func (w *WaitGroup) Wait() {
	w.init()
	if vs.Active() {
		vs.Block(&vs.Op{Kind: "wgwait", Obj: w.id, W: wgWaiter{w}})
	}
	vs.RaceAcquire(w.rc)
}

// Cond is not modelled; code that starts using it is reported as unsupported
// by the build (missing identifier), never silently mis-scheduled.
