// Package vc is the common frame of every check: sharding over worker
// processes, merging of worker reports, known-findings matching, violation
// artefacts and the evidence file.
package vc

import (
	"crypto/sha256"
	"encoding/hex"
	"encoding/json"
	"flag"
	"fmt"
	"io"
	"log/slog"
	"os"
	"os/exec"
	"path/filepath"
	"runtime"
	"runtime/debug"
	"sort"
	"strconv"
	"strings"
	"sync"
	"sync/atomic"
	"syscall"
	"time"
)

// VerifDir is the root of the verification tree (VERIF_ROOT, default /verif).
var VerifDir = func() string {
	if v := os.Getenv("VERIF_ROOT"); v != "" {
		return v
	}
	return "/verif"
}()

// OutDir is where evidence and replay artefacts go: VerifDir, unless VERIF_OUT redirects them (seeded-change
// testing, so that a run against a changed checkout does not overwrite the evidence of the real tree).
var OutDir = func() string {
	if v := os.Getenv("VERIF_OUT"); v != "" {
		return v
	}
	return VerifDir
}()

// Ctx is what a check's Run sees in one worker.
type Ctx struct {
	Prop     string
	Tier     string // quick | thorough
	Seed     int64
	Worker   int
	NWorkers int
	Deadline time.Time
	Race     bool
}

func (c *Ctx) Thorough() bool { return c.Tier == "thorough" }

// Mine tells whether case index i belongs to this worker.
func (c *Ctx) Mine(i int64) bool { return int(i%int64(c.NWorkers)) == c.Worker }

// Expired tells whether the internal deadline passed (the run then ends with
// exhaustive:false, never with a violation).
func (c *Ctx) Expired() bool { return time.Now().After(c.Deadline) }

// Finding is a violation candidate produced by a check.
type Finding struct {
	Sig    string          `json:"sig"`    // stable signature
	Msg    string          `json:"msg"`    // human diagnosis
	Driver string          `json:"driver"` // replay driver name
	Case   json.RawMessage `json:"case"`   // replay input for that driver
}

// Report is produced by each worker and merged by the parent.
type Report struct {
	Evaluations     int64            `json:"evaluations"`
	Nontrivial      int64            `json:"nontrivial"`
	States          int64            `json:"states"`
	Transitions     int64            `json:"transitions"`
	TracesValidated int64            `json:"traces_validated"`
	Outcomes        map[string]int64 `json:"outcomes"` // outcome class -> count
	Samples         []any            `json:"samples"`
	Findings        []Finding        `json:"findings"`
	Truncated       bool             `json:"truncated"`
	Caps            []string         `json:"caps"`
	Notes           []string         `json:"notes"`
	Nondet          string           `json:"nondet"`
	// SoftBroken: a self-check of the machinery failed (e.g. conformance replay over real TCP differs). It makes the
	// check CHECK-BROKEN unless the check itself also found violations of the property on this tree, in which case the
	// divergence is attributed to the code under test and reported as a note next to the violations.
	SoftBroken string           `json:"soft_broken"`
	Counters   map[string]int64 `json:"counters"`
	Bound      int              `json:"bound"`
	seenSig    map[string]bool
}

func NewReport() *Report {
	return &Report{Outcomes: map[string]int64{}, Counters: map[string]int64{}, seenSig: map[string]bool{}}
}

func (r *Report) Outcome(class string)    { r.Outcomes[class]++ }
func (r *Report) Count(k string, n int64) { r.Counters[k] += n }

func (r *Report) Sample(x any) {
	if len(r.Samples) < 6 {
		r.Samples = append(r.Samples, x)
	}
}

// Add records a finding once per signature (per worker).
func (r *Report) Add(sig, msg, driver string, c any) {
	if r.seenSig == nil {
		r.seenSig = map[string]bool{}
	}
	if r.seenSig[sig] {
		return
	}
	r.seenSig[sig] = true
	js, _ := json.Marshal(c)
	if len(msg) > 6000 {
		msg = msg[:6000] + "..."
	}
	r.Findings = append(r.Findings, Finding{Sig: sig, Msg: msg, Driver: driver, Case: js})
}

func (r *Report) Seen(sig string) bool { return r.seenSig[sig] }

func (r *Report) TooMany() bool { return len(r.Findings) >= 40 }

// Check describes one property's machinery.
type Check struct {
	ID          string
	Level       string // evidence level: exploration | model_checking
	Rule        string
	Assumptions []string
	Serial      bool // run in one worker only
	SingleProc  bool // workers use GOMAXPROCS=1 (E1)
	Run         func(c *Ctx, r *Report)
	// Drivers replay one case: they return a diagnosis ("" = case passes).
	Drivers map[string]func(raw json.RawMessage) string
}

var checks = map[string]*Check{}

func Register(c *Check) { checks[c.ID] = c }

// MuteOutput makes code under test unable to write to the check's stdout and
// silences slog (arguments are still evaluated).
var realStdout *os.File

func MuteOutput() {
	if realStdout != nil {
		return
	}
	fd, err := syscall.Dup(1)
	if err != nil {
		return
	}
	realStdout = os.NewFile(uintptr(fd), "realstdout")
	null, err := os.OpenFile("/dev/null", os.O_WRONLY, 0)
	if err == nil {
		_ = syscall.Dup2(int(null.Fd()), 1)
		os.Stdout = null
	}
	slog.SetDefault(slog.New(slog.NewTextHandler(io.Discard, &slog.HandlerOptions{Level: slog.Level(100)})))
}

func Out() io.Writer {
	if realStdout != nil {
		return realStdout
	}
	return os.Stdout
}

type known struct {
	Property string `json:"property"`
	Status   string `json:"status"` // known | fixed
	Sig      string `json:"sig"`
	What     string `json:"what"`
	Commit   string `json:"commit,omitempty"`
}

func loadKnown(prop string) []known {
	b, err := os.ReadFile(filepath.Join(VerifDir, "known_findings.jsonl"))
	if err != nil {
		return nil
	}
	var out []known
	for _, l := range strings.Split(string(b), "\n") {
		l = strings.TrimSpace(l)
		if l == "" || strings.HasPrefix(l, "#") {
			continue
		}
		var k known
		if json.Unmarshal([]byte(l), &k) == nil && k.Property == prop {
			out = append(out, k)
		}
	}
	return out
}

// Main is the entry point of cmd/vcheck.
func Main() {
	if len(os.Args) < 2 {
		fmt.Fprintln(os.Stderr, "usage: vcheck <Cxx> [--tier quick|thorough] [--replay file]")
		os.Exit(2)
	}
	id := os.Args[1]
	fs := flag.NewFlagSet("vcheck", flag.ExitOnError)
	tier := fs.String("tier", "", "quick|thorough")
	replay := fs.String("replay", "", "replay artefact")
	worker := fs.String("worker", "", "i/n (internal)")
	out := fs.String("out", "", "worker report file (internal)")
	nw := fs.Int("workers", 0, "number of worker processes")
	race := fs.Bool("race", false, "binary is the -race build (internal)")
	budget := fs.Duration("budget", 0, "internal deadline override")
	_ = fs.Parse(os.Args[2:])
	ck := checks[id]
	if ck == nil {
		fmt.Fprintf(os.Stderr, "vcheck: unknown check %q\n", id)
		os.Exit(2)
	}
	if *tier == "" {
		*tier = os.Getenv("VERIF_TIER")
	}
	if *tier == "" {
		*tier = "quick"
	}
	seed := int64(1)
	if s := os.Getenv("VERIF_SEED"); s != "" {
		if v, err := strconv.ParseInt(s, 10, 64); err == nil {
			seed = v
		}
	}
	if *replay != "" {
		os.Exit(doReplay(ck, *replay))
	}
	if *worker != "" {
		runWorker(ck, *tier, seed, *worker, *out, *race, *budget)
		return
	}
	os.Exit(runParent(ck, *tier, seed, *nw, *race, *budget))
}

func runWorker(ck *Check, tier string, seed int64, spec, out string, race bool, budget time.Duration) {
	var i, n int
	fmt.Sscanf(spec, "%d/%d", &i, &n)
	MuteOutput()
	debug.SetMemoryLimit(6 << 30)
	workerOut = out
	go memWatch()
	if budget == 0 {
		budget = 150 * time.Second
		if tier == "thorough" {
			budget = 25 * time.Minute
		}
	}
	ctx := &Ctx{Prop: ck.ID, Tier: tier, Seed: seed, Worker: i, NWorkers: n, Deadline: time.Now().Add(budget), Race: race}
	rep := NewReport()
	func() {
		defer func() {
			if r := recover(); r != nil {
				rep.Nondet = fmt.Sprintf("worker %d: checker panic: %v\n%s", i, r, debug.Stack())
			}
		}()
		ck.Run(ctx, rep)
	}()
	js, _ := json.Marshal(rep)
	if err := os.WriteFile(out, js, 0o644); err != nil {
		fmt.Fprintln(os.Stderr, "worker: write report:", err)
		os.Exit(3)
	}
}

// SetCurrent names the case a worker is about to evaluate (driver + replay payload + one-line description). If the code
// under test then exhausts memory or stops making progress, the watchdog turns that case into a violation instead of
// letting the worker die without a report.
//
// The returned function ends the case; the watchdog only acts between SetCurrent and that call.
func SetCurrent(driver string, payload any, desc string) (done func()) {
	curCase.Store(&currentCase{driver, payload, desc})
	curTick.Add(1)
	return doneCurrent
}

func doneCurrent() {
	curCase.Store(nil)
	curTick.Add(1)
}

type currentCase struct {
	driver  string
	payload any
	desc    string
}

var (
	curCase   atomic.Pointer[currentCase]
	curTick   atomic.Int64
	workerOut string // report path of this worker (set by runWorker)
)

// giveUp writes a minimal report holding one finding for the current case and ends the worker.
func giveUp(kind, what string) {
	c := curCase.Load()
	if c == nil || workerOut == "" {
		fmt.Fprintln(os.Stderr, "worker: "+what+", giving up")
		os.Exit(4)
	}
	rep := NewReport()
	rep.Evaluations = 1
	rep.Add(kind, fmt.Sprintf("%s while evaluating %s", what, c.desc), c.driver, c.payload)
	js, _ := json.Marshal(rep)
	_ = os.WriteFile(workerOut, js, 0o644)
	os.Exit(0)
}

func memWatch() {
	lastTick, stall := int64(-1), 0
	for {
		time.Sleep(2 * time.Second)
		var m runtime.MemStats
		runtime.ReadMemStats(&m)
		if m.HeapAlloc > 10<<30 {
			giveUp("resource-exhaustion:heap", "the code under test grew the heap above 10 GiB")
		}
		// a check that announces its cases (SetCurrent) and then stays on one case for 3 minutes is stuck in the code under test
		if t := curTick.Load(); t > 0 && curCase.Load() != nil {
			if t == lastTick {
				stall++
			} else {
				lastTick, stall = t, 0
			}
			if stall >= 90 {
				giveUp("no-progress", "no progress for 180 s (non-terminating code under test)")
			}
		}
	}
}

func runParent(ck *Check, tier string, seed int64, nw int, race bool, budget time.Duration) int {
	start := time.Now()
	if nw == 0 {
		nw = runtime.NumCPU()
		if nw > 16 {
			nw = 16
		}
	}
	if ck.Serial {
		nw = 1
	}
	tmp, err := os.MkdirTemp("", "vcheck-"+ck.ID+"-")
	if err != nil {
		fmt.Fprintln(os.Stderr, err)
		return 2
	}
	defer os.RemoveAll(tmp)
	reports := make([]*Report, nw)
	errs := make([]string, nw)
	var wg sync.WaitGroup
	for i := 0; i < nw; i++ {
		wg.Add(1)
		go func(i int) {
			defer wg.Done()
			outf := filepath.Join(tmp, fmt.Sprintf("w%d.json", i))
			args := []string{ck.ID, "--tier", tier, "--worker", fmt.Sprintf("%d/%d", i, nw), "--out", outf}
			if race {
				args = append(args, "--race")
			}
			if budget != 0 {
				args = append(args, "--budget", budget.String())
			}
			cmd := exec.Command(os.Args[0], args...)
			cmd.Env = append(os.Environ(), fmt.Sprintf("VERIF_SEED=%d", seed))
			if ck.SingleProc {
				cmd.Env = append(cmd.Env, "GOMAXPROCS=1")
			}
			if race {
				cmd.Env = append(cmd.Env, "GORACE=halt_on_error=0 log_path="+filepath.Join(tmp, fmt.Sprintf("race%d", i)))
			}
			var stderr strings.Builder
			cmd.Stderr = &stderr
			cmd.Stdout = io.Discard
			err := cmd.Run()
			b, rerr := os.ReadFile(outf)
			if rerr != nil {
				errs[i] = fmt.Sprintf("worker %d: no report (%v): %s", i, err, tail(stderr.String(), 3000))
				return
			}
			rep := NewReport()
			if jerr := json.Unmarshal(b, rep); jerr != nil {
				errs[i] = fmt.Sprintf("worker %d: bad report: %v", i, jerr)
				return
			}
			reports[i] = rep
		}(i)
	}
	wg.Wait()
	for _, e := range errs {
		if e != "" {
			fmt.Fprintln(os.Stdout, "CHECK-BROKEN:", e)
			return 2
		}
	}
	// merge
	m := NewReport()
	for _, r := range reports {
		m.Evaluations += r.Evaluations
		m.Nontrivial += r.Nontrivial
		m.States += r.States
		m.Transitions += r.Transitions
		m.TracesValidated += r.TracesValidated
		for k, v := range r.Outcomes {
			m.Outcomes[k] += v
		}
		for k, v := range r.Counters {
			m.Counters[k] += v
		}
		for _, s := range r.Samples {
			m.Sample(s)
		}
		if r.Truncated {
			m.Truncated = true
		}
		m.Caps = append(m.Caps, r.Caps...)
		m.Notes = append(m.Notes, r.Notes...)
		if r.Nondet != "" && m.Nondet == "" {
			m.Nondet = r.Nondet
		}
		if r.SoftBroken != "" && m.SoftBroken == "" {
			m.SoftBroken = r.SoftBroken
		}
		if r.Bound > m.Bound {
			m.Bound = r.Bound
		}
		for _, f := range r.Findings {
			if !m.seenSig[f.Sig] {
				m.seenSig[f.Sig] = true
				m.Findings = append(m.Findings, f)
			}
		}
	}
	m.Caps = uniq(m.Caps)
	m.Notes = uniq(m.Notes)
	if m.Nondet != "" {
		fmt.Fprintln(os.Stdout, "CHECK-BROKEN (nondeterminism or checker failure):", m.Nondet)
		return 2
	}
	if m.SoftBroken != "" {
		unlisted := 0
		for _, f := range m.Findings {
			listed := false
			for _, k := range loadKnown(ck.ID) {
				if k.Status == "known" && k.Sig == f.Sig {
					listed = true
				}
			}
			if !listed {
				unlisted++
			}
		}
		if unlisted == 0 {
			fmt.Fprintln(os.Stdout, "CHECK-BROKEN (self-check of the machinery failed and the exploration found nothing that explains it):", m.SoftBroken)
			return 2
		}
		m.Notes = append(m.Notes, "self-check failed on this tree (attributed to the violations below): "+m.SoftBroken)
		fmt.Fprintln(os.Stdout, "NOTE: self-check failed on this tree, attributed to the violations below:", firstLine(m.SoftBroken))
	}
	// classify findings
	kn := loadKnown(ck.ID)
	sort.Slice(m.Findings, func(i, j int) bool { return m.Findings[i].Sig < m.Findings[j].Sig })
	violations := 0
	knownSeen := 0
	for _, f := range m.Findings {
		matched := false
		for _, k := range kn {
			if k.Status == "known" && k.Sig == f.Sig {
				matched = true
				fmt.Fprintf(os.Stdout, "KNOWN-FINDING: property=%s %s [%s]\n", ck.ID, k.What, k.Sig)
				knownSeen++
			}
		}
		if matched {
			continue
		}
		violations++
		h := sha256.Sum256([]byte(f.Sig))
		dir := filepath.Join(OutDir, "replays", ck.ID)
		_ = os.MkdirAll(dir, 0o755)
		path := filepath.Join(dir, hex.EncodeToString(h[:6])+".json")
		js, _ := json.MarshalIndent(f, "", " ")
		_ = os.WriteFile(path, js, 0o644)
		fmt.Fprintf(os.Stdout, "VIOLATION property=%s replay=%s\n", ck.ID, path)
		fmt.Fprintf(os.Stdout, "  signature: %s\n  %s\n", f.Sig, strings.ReplaceAll(tail(f.Msg, 1500), "\n", "\n  "))
	}
	wall := time.Since(start).Seconds()
	writeEvidence(ck, tier, seed, m, violations, knownSeen, wall)
	fmt.Fprintf(os.Stdout, "%s tier=%s evaluations=%d nontrivial=%d states=%d transitions=%d outcomes=%d exhaustive=%v violations=%d known=%d wall=%.1fs\n",
		ck.ID, tier, m.Evaluations, m.Nontrivial, m.States, m.Transitions, len(m.Outcomes), !m.Truncated, violations, knownSeen, wall)
	if violations > 0 {
		return 1
	}
	return 0
}

func uniq(in []string) []string {
	seen := map[string]bool{}
	var out []string
	for _, s := range in {
		if !seen[s] {
			seen[s] = true
			out = append(out, s)
		}
	}
	sort.Strings(out)
	return out
}

func tail(s string, n int) string {
	if len(s) <= n {
		return s
	}
	return "..." + s[len(s)-n:]
}

func writeEvidence(ck *Check, tier string, seed int64, m *Report, violations, knownSeen int, wall float64) {
	cov := map[string]any{
		"evaluations":         m.Evaluations,
		"distinct_nontrivial": m.Nontrivial,
		"rule":                ck.Rule,
		"samples":             m.Samples,
		"exhaustive":          !m.Truncated,
		"distinct_outcomes":   len(m.Outcomes),
		"outcome_classes":     topOutcomes(m.Outcomes, 24),
		"counters":            m.Counters,
		"known_findings_met":  knownSeen,
	}
	if len(m.Caps) > 0 {
		cov["caps_hit"] = m.Caps
	}
	if len(m.Notes) > 0 {
		cov["notes"] = m.Notes
	}
	if ck.Level == "model_checking" {
		cov["states"] = m.States
		cov["transitions"] = m.Transitions
		cov["traces_validated_against_impl"] = m.TracesValidated
		if m.Bound > 0 {
			cov["deviation_bound_completed"] = m.Bound
		}
	}
	if len(m.Samples) == 0 {
		cov["samples"] = []any{"(no sample recorded)"}
	}
	ev := map[string]any{
		"property_id": ck.ID,
		"tier":        tier,
		"seed":        seed,
		"level":       ck.Level,
		"coverage":    cov,
		"assumptions": ck.Assumptions,
		"wall_s":      wall,
		"violations":  violations,
	}
	js, _ := json.MarshalIndent(ev, "", " ")
	dir := filepath.Join(OutDir, "evidence")
	_ = os.MkdirAll(dir, 0o755)
	_ = os.WriteFile(filepath.Join(dir, ck.ID+".json"), append(js, '\n'), 0o644)
}

func topOutcomes(m map[string]int64, n int) map[string]int64 {
	type kv struct {
		k string
		v int64
	}
	var l []kv
	for k, v := range m {
		l = append(l, kv{k, v})
	}
	sort.Slice(l, func(i, j int) bool {
		if l[i].v != l[j].v {
			return l[i].v > l[j].v
		}
		return l[i].k < l[j].k
	})
	out := map[string]int64{}
	for i, x := range l {
		if i >= n {
			break
		}
		out[x.k] = x.v
	}
	return out
}

func doReplay(ck *Check, path string) int {
	b, err := os.ReadFile(path)
	if err != nil {
		fmt.Fprintln(os.Stderr, err)
		return 2
	}
	var f Finding
	if err := json.Unmarshal(b, &f); err != nil {
		fmt.Fprintln(os.Stderr, err)
		return 2
	}
	d := ck.Drivers[f.Driver]
	if d == nil {
		fmt.Fprintf(os.Stderr, "no replay driver %q\n", f.Driver)
		return 2
	}
	MuteOutput()
	diag := d(f.Case)
	if diag == "" {
		fmt.Fprintf(Out(), "replay %s: case passes on this tree\n", path)
		return 0
	}
	fmt.Fprintf(Out(), "VIOLATION property=%s replay=%s\n  signature: %s\n  %s\n", ck.ID, path, f.Sig, strings.ReplaceAll(diag, "\n", "\n  "))
	return 1
}

// Catch runs f and converts a panic into "<panic text> @ <function>", where
// function is the innermost frame inside the repository.
func Catch(f func()) (panicked string) {
	defer func() {
		if r := recover(); r != nil {
			panicked = fmt.Sprint(r) + " @ " + RepoFrame(string(debug.Stack()))
		}
	}()
	f()
	return ""
}

// RepoFrame returns the innermost function of the repository in a stack dump.
func RepoFrame(st string) string {
	const pfx = "github.com/cuteLittleDevil/go-jt808/"
	for _, l := range strings.Split(st, "\n") {
		l = strings.TrimSpace(l)
		if strings.HasPrefix(l, pfx) {
			l = strings.TrimPrefix(l, pfx)
			if i := strings.LastIndex(l, "("); i > 0 {
				l = l[:i]
			}
			// drop closure suffixes like .func1
			return l
		}
	}
	return "?"
}

// PanicSite extracts the function from Catch output.
func PanicSite(p string) string {
	if i := strings.LastIndex(p, " @ "); i >= 0 {
		return p[i+3:]
	}
	return ""
}

// PanicClass normalises a panic text to a stable class (numbers removed).
func PanicClass(p string) string {
	if i := strings.Index(p, " @ "); i >= 0 {
		p = p[:i]
	}
	var b strings.Builder
	lastHash := false
	for _, r := range p {
		if r >= '0' && r <= '9' {
			if !lastHash {
				b.WriteByte('#')
			}
			lastHash = true
			continue
		}
		lastHash = false
		b.WriteRune(r)
	}
	return b.String()
}

func firstLine(s string) string {
	if i := strings.IndexByte(s, '\n'); i >= 0 {
		return s[:i]
	}
	return s
}
