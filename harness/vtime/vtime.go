// Package vtime replaces package time in rewritten code: value types and pure
// functions are re-exported, Now reads the virtual clock, Sleep and the timer
// constructors become scheduler events.
package vtime

import (
	"time"

	"verif/harness/vs"
)

type (
	Duration   = time.Duration
	Time       = time.Time
	Month      = time.Month
	Weekday    = time.Weekday
	Location   = time.Location
	ParseError = time.ParseError
)

const (
	Nanosecond  = time.Nanosecond
	Microsecond = time.Microsecond
	Millisecond = time.Millisecond
	Second      = time.Second
	Minute      = time.Minute
	Hour        = time.Hour

	Layout      = time.Layout
	ANSIC       = time.ANSIC
	UnixDate    = time.UnixDate
	RubyDate    = time.RubyDate
	RFC822      = time.RFC822
	RFC822Z     = time.RFC822Z
	RFC850      = time.RFC850
	RFC1123     = time.RFC1123
	RFC1123Z    = time.RFC1123Z
	RFC3339     = time.RFC3339
	RFC3339Nano = time.RFC3339Nano
	Kitchen     = time.Kitchen
	Stamp       = time.Stamp
	StampMilli  = time.StampMilli
	StampMicro  = time.StampMicro
	StampNano   = time.StampNano
	DateTime    = time.DateTime
	DateOnly    = time.DateOnly
	TimeOnly    = time.TimeOnly

	January   = time.January
	February  = time.February
	March     = time.March
	April     = time.April
	May       = time.May
	June      = time.June
	July      = time.July
	August    = time.August
	September = time.September
	October   = time.October
	November  = time.November
	December  = time.December

	Sunday    = time.Sunday
	Monday    = time.Monday
	Tuesday   = time.Tuesday
	Wednesday = time.Wednesday
	Thursday  = time.Thursday
	Friday    = time.Friday
	Saturday  = time.Saturday
)

var (
	UTC   = time.UTC
	Local = time.Local

	Date                   = time.Date
	Unix                   = time.Unix
	UnixMilli              = time.UnixMilli
	UnixMicro              = time.UnixMicro
	Parse                  = time.Parse
	ParseInLocation        = time.ParseInLocation
	ParseDuration          = time.ParseDuration
	FixedZone              = time.FixedZone
	LoadLocation           = time.LoadLocation
	LoadLocationFromTZData = time.LoadLocationFromTZData
)

// Base is the virtual epoch of every execution.
var Base = time.Date(2024, 10, 1, 8, 0, 0, 0, time.UTC)

//go:norace
func Now() Time {
	return Base.Add(time.Duration(vs.ClockNanos()))
}

func Since(t Time) Duration { return Now().Sub(t) }
func Until(t Time) Duration { return t.Sub(Now()) }

//go:norace
func Sleep(d Duration) {
	if !vs.Active() {
		return
	}
	vs.SleepNanos(int64(d), "")
}

// After returns a channel that receives the (virtual) time once a timer
// thread has fired.
//
//go:norace
func After(d Duration) *vs.Chan[Time] {
	return NewTimer(d).C
}

type Timer struct {
	C       *vs.Chan[Time]
	f       func()
	gen     int
	active  bool
	stopped bool
}

//go:norace
func NewTimer(d Duration) *Timer {
	t := &Timer{C: vs.NewChan[Time]("timer", 1)}
	t.start(d)
	return t
}

//go:norace
func AfterFunc(d Duration, f func()) *Timer {
	t := &Timer{f: f}
	t.start(d)
	return t
}

//go:norace
func (t *Timer) start(d Duration) {
	t.gen++
	gen := t.gen
	t.active = true
	vs.Go("timer", func() { t.fire(gen, d) })
}

//go:norace
func (t *Timer) fire(gen int, d Duration) {
	vs.SleepNanos(int64(d), "timer")
	if t.gen != gen || !t.active {
		return
	}
	t.active = false
	if t.f != nil {
		t.f()
		return
	}
	if t.C.Len() == 0 {
		t.C.Send(Now())
	}
}

//go:norace
func (t *Timer) Stop() bool {
	was := t.active
	t.active = false
	return was
}

//go:norace
func (t *Timer) Reset(d Duration) bool {
	was := t.active
	t.active = false
	t.start(d)
	return was
}

type Ticker struct {
	C       *vs.Chan[Time]
	stopped bool
	d       Duration
}

// TickerFires bounds how often a ticker fires in one execution (a ticker
// would otherwise keep every execution alive forever).
var TickerFires = 3

//go:norace
func NewTicker(d Duration) *Ticker {
	t := &Ticker{C: vs.NewChan[Time]("ticker", 1), d: d}
	vs.Go("ticker", t.loop)
	return t
}

//go:norace
func (t *Ticker) loop() {
	for i := 0; i < TickerFires; i++ {
		vs.SleepNanos(int64(t.d), "ticker")
		if t.stopped {
			return
		}
		if t.C.Len() == 0 {
			t.C.Send(Now())
		}
	}
}

//go:norace
func (t *Ticker) Stop() { t.stopped = true }

//go:norace
func (t *Ticker) Reset(d Duration) { t.d = d }

//go:norace
func Tick(d Duration) *vs.Chan[Time] { return NewTicker(d).C }
