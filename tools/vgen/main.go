// vgen: type-aware, line-preserving source rewriter for engine E1.
//
// It loads a package of the repository from the harness module (so that the
// replace directives point at /repo's working tree), rewrites every
// concurrency construct into calls of the scheduler shims, and writes the
// result plus a `go build -overlay` file. /repo is never written.
//
// The rewriting is textual on top of the typed AST: only the "shell" tokens of
// a construct are replaced and nothing ever inserts a newline, so every
// statement keeps its original file:line (panics, stack traces and race
// reports of the instrumented build point at /repo/<pkg>/<file>:<line>).
package main

import (
	"encoding/json"
	"flag"
	"fmt"
	"go/ast"
	"go/token"
	"go/types"
	"os"
	"path/filepath"
	"sort"
	"strconv"
	"strings"

	"golang.org/x/tools/go/packages"
)

type edit struct {
	start, end int
	text       string
	seq        int
	os, oe     int // range of the node that owns the edit
}

type rewriter struct {
	fset    *token.FileSet
	tf      *token.File
	src     []byte
	info    *types.Info
	edits   []edit
	seq     int
	tmp     int
	owner   ast.Node
	conc    bool              // rewrite concurrency constructs
	imports map[string]string // import path -> shim path
	errs    []string
	fname   string
}

func (r *rewriter) off(p token.Pos) int { return r.tf.Offset(p) }

func (r *rewriter) fail(p token.Pos, format string, a ...any) {
	r.errs = append(r.errs, fmt.Sprintf("%s: %s", r.fset.Position(p), fmt.Sprintf(format, a...)))
}

// replaceOff registers an edit owned by the node being handled; edits owned
// by nodes lying inside [s,e) are absorbed (the caller has rendered them).
func (r *rewriter) replaceOff(s, e int, text string) {
	if s != e {
		kept := r.edits[:0]
		for _, x := range r.edits {
			inside := x.os >= s && x.oe <= e
			if !inside {
				kept = append(kept, x)
			}
		}
		r.edits = kept
	}
	r.seq++
	os, oe := s, e
	if r.owner != nil {
		os, oe = r.off(r.owner.Pos()), r.off(r.owner.End())
	}
	r.edits = append(r.edits, edit{s, e, text, r.seq, os, oe})
}

func (r *rewriter) replace(s, e token.Pos, text string) { r.replaceOff(r.off(s), r.off(e), text) }
func (r *rewriter) insert(p token.Pos, text string)     { r.replaceOff(r.off(p), r.off(p), text) }

func sortEdits(es []edit) {
	sort.SliceStable(es, func(i, j int) bool {
		a, b := es[i], es[j]
		if a.start != b.start {
			return a.start < b.start
		}
		az, bz := a.start == a.end, b.start == b.end
		if az != bz {
			return az // zero-width inserts first
		}
		return a.seq < b.seq
	})
}

// renderOff returns src[s:e] with the registered edits inside applied.
func (r *rewriter) renderOff(s, e int) string {
	var in []edit
	for _, x := range r.edits {
		if x.os >= s && x.oe <= e {
			in = append(in, x)
		}
	}
	sortEdits(in)
	var b strings.Builder
	pos := s
	for _, x := range in {
		if x.start < pos {
			r.errs = append(r.errs, fmt.Sprintf("%s: overlapping edits at offset %d", r.fname, x.start))
			continue
		}
		b.Write(r.src[pos:x.start])
		b.WriteString(x.text)
		pos = x.end
	}
	b.Write(r.src[pos:e])
	return b.String()
}

func (r *rewriter) render(n ast.Node) string { return r.renderOff(r.off(n.Pos()), r.off(n.End())) }

func (r *rewriter) site(p token.Pos) string {
	pos := r.fset.Position(p)
	return strconv.Quote(fmt.Sprintf("%s:%d", filepath.Base(pos.Filename), pos.Line))
}

func (r *rewriter) newTmp(prefix string) string {
	r.tmp++
	return fmt.Sprintf("vg_%s%d", prefix, r.tmp)
}

func unparen(e ast.Expr) ast.Expr {
	for {
		p, ok := e.(*ast.ParenExpr)
		if !ok {
			return e
		}
		e = p.X
	}
}

func isSimple(e ast.Expr) bool {
	switch x := e.(type) {
	case *ast.Ident, *ast.ParenExpr:
		return true
	case *ast.SelectorExpr:
		return isSimple(x.X)
	case *ast.CallExpr:
		return isSimple(x.Fun)
	case *ast.IndexExpr:
		return isSimple(x.X)
	}
	return false
}

func (r *rewriter) isBuiltin(e ast.Expr, name string) bool {
	id, ok := unparen(e).(*ast.Ident)
	if !ok || id.Name != name {
		return false
	}
	_, isB := r.info.Uses[id].(*types.Builtin)
	return isB
}

func (r *rewriter) underlying(e ast.Expr) types.Type {
	t := r.info.TypeOf(e)
	if t == nil {
		return nil
	}
	return t.Underlying()
}

func (r *rewriter) isChan(e ast.Expr) bool {
	_, ok := r.underlying(e).(*types.Chan)
	return ok
}

// chanText renders a channel-valued expression so that a method call can be
// appended to it.
func (r *rewriter) chanText(e ast.Expr) string {
	if isSimple(e) {
		return r.render(e)
	}
	return "(" + r.render(e) + ")"
}

// isCommRecv tells whether recv expression u is the receive of a select comm.
func isCommOf(cc *ast.CommClause, n ast.Node) bool {
	switch s := cc.Comm.(type) {
	case *ast.SendStmt:
		return s == n
	case *ast.ExprStmt:
		return unparen(s.X) == n
	case *ast.AssignStmt:
		return len(s.Rhs) == 1 && unparen(s.Rhs[0]) == n
	}
	return false
}

func (r *rewriter) run(f *ast.File) {
	var stack []ast.Node
	ast.Inspect(f, func(n ast.Node) bool {
		if n != nil {
			stack = append(stack, n)
			return true
		}
		node := stack[len(stack)-1]
		stack = stack[:len(stack)-1]
		r.post(node, stack)
		return true
	})
}

func parentOf(stack []ast.Node, skipParens bool) (ast.Node, int) {
	for i := len(stack) - 1; i >= 0; i-- {
		if _, ok := stack[i].(*ast.ParenExpr); ok && skipParens {
			continue
		}
		return stack[i], i
	}
	return nil, -1
}

func (r *rewriter) post(n ast.Node, stack []ast.Node) {
	r.owner = n
	switch x := n.(type) {
	case *ast.ImportSpec:
		p, _ := strconv.Unquote(x.Path.Value)
		if shim, ok := r.imports[p]; ok {
			if x.Name != nil && (x.Name.Name == "_" || x.Name.Name == ".") {
				r.fail(x.Pos(), "dot/blank import of %s cannot be shimmed", p)
				return
			}
			name := filepath.Base(p)
			if x.Name != nil {
				name = x.Name.Name
			}
			r.replace(x.Pos(), x.End(), name+" "+strconv.Quote(shim))
		}
	}
	if !r.conc {
		return
	}
	switch x := n.(type) {
	case *ast.ChanType:
		r.replace(x.Pos(), x.Value.Pos(), "*vs_.Chan[")
		r.insert(x.End(), "]")
	case *ast.TypeSpec:
		if _, ok := x.Type.(*ast.ChanType); ok && !x.Assign.IsValid() {
			// named channel type -> alias of the shim type (methods on it are unsupported)
			r.replace(x.Name.End(), x.Type.Pos(), " = ")
		}
	case *ast.CallExpr:
		r.postCall(x)
	case *ast.SendStmt:
		if p, _ := parentOf(stack, false); p != nil {
			if cc, ok := p.(*ast.CommClause); ok && cc.Comm == x {
				return
			}
		}
		if !isSimple(x.Chan) {
			r.replace(x.Chan.Pos(), x.Chan.End(), "("+r.render(x.Chan)+")")
		}
		r.replace(x.Chan.End(), x.Value.Pos(), ".Send(")
		r.insert(x.Value.End(), ")")
	case *ast.UnaryExpr:
		if x.Op != token.ARROW {
			return
		}
		// receive of a select comm is handled by the select
	up:
		for i := len(stack) - 1; i >= 0; i-- {
			switch p := stack[i].(type) {
			case *ast.ParenExpr, *ast.ExprStmt, *ast.AssignStmt:
				continue
			case *ast.CommClause:
				if isCommOf(p, x) {
					return
				}
				break up
			default:
				break up
			}
		}
		method := ").Recv()"
		if p, _ := parentOf(stack, true); p != nil {
			switch a := p.(type) {
			case *ast.AssignStmt:
				if len(a.Lhs) == 2 && len(a.Rhs) == 1 && unparen(a.Rhs[0]) == x {
					method = ").Recv2()"
				}
			case *ast.ValueSpec:
				if len(a.Names) == 2 && len(a.Values) == 1 && unparen(a.Values[0]) == x {
					method = ").Recv2()"
				}
			}
		}
		r.replace(x.Pos(), x.X.Pos(), "(")
		r.insert(x.X.End(), method)
	case *ast.GoStmt:
		r.postGo(x)
	case *ast.RangeStmt:
		r.postRange(x, stack)
	case *ast.SelectStmt:
		r.postSelect(x, stack)
	case *ast.SelectorExpr:
		if id, ok := x.X.(*ast.Ident); ok && id.Name == "reflect" {
			switch x.Sel.Name {
			case "Select", "ChanOf", "MakeChan":
				r.fail(x.Pos(), "reflect.%s cannot be instrumented", x.Sel.Name)
			}
		}
	}
}

func (r *rewriter) postCall(x *ast.CallExpr) {
	switch {
	case r.isBuiltin(x.Fun, "make") && len(x.Args) >= 1:
		if _, ok := r.underlying(x.Args[0]).(*types.Chan); !ok {
			return
		}
		ct, ok := unparen(x.Args[0]).(*ast.ChanType)
		if !ok {
			r.fail(x.Pos(), "make of a named channel type is not supported")
			return
		}
		elem := r.render(ct.Value)
		r.replace(x.Pos(), x.Args[0].End(), "vs_.NewChan["+elem+"]("+r.site(x.Pos()))
	case r.isBuiltin(x.Fun, "close") && len(x.Args) == 1:
		r.replace(x.Pos(), x.Args[0].Pos(), "(")
		r.replace(x.Args[0].End(), x.End(), ").Close()")
	case (r.isBuiltin(x.Fun, "len") || r.isBuiltin(x.Fun, "cap")) && len(x.Args) == 1 && r.isChan(x.Args[0]):
		m := ").Len()"
		if r.isBuiltin(x.Fun, "cap") {
			m = ").Cap()"
		}
		r.replace(x.Pos(), x.Args[0].Pos(), "(")
		r.replace(x.Args[0].End(), x.End(), m)
	}
}

func (r *rewriter) postGo(x *ast.GoStmt) {
	call := x.Call
	if tv, ok := r.info.Types[call.Fun]; ok && (tv.IsType() || tv.IsBuiltin()) {
		r.fail(x.Pos(), "go statement on a conversion or builtin is not supported")
		return
	}
	var b strings.Builder
	f := r.newTmp("f")
	b.WriteString("{ " + f + " := " + r.render(call.Fun) + "; ")
	var args []string
	for i, a := range call.Args {
		tv := r.info.Types[a]
		txt := r.render(a)
		if tv.Value == nil && !tv.IsNil() {
			t := r.newTmp("a")
			b.WriteString(t + " := " + txt + "; ")
			txt = t
		}
		if i == len(call.Args)-1 && call.Ellipsis.IsValid() {
			txt += "..."
		}
		args = append(args, txt)
	}
	b.WriteString("vs_.Go(" + r.site(x.Pos()) + ", func() { " + f + "(" + strings.Join(args, ", ") + ") }) }")
	r.replace(x.Pos(), x.End(), b.String())
}

// labelOf returns the label text if the statement is directly labeled, and
// removes the label from its original place.
func (r *rewriter) takeLabel(stmt ast.Stmt, stack []ast.Node) string {
	if p, _ := parentOf(stack, false); p != nil {
		if ls, ok := p.(*ast.LabeledStmt); ok && ls.Stmt == stmt {
			r.replace(ls.Pos(), stmt.Pos(), "")
			return ls.Label.Name + ": "
		}
	}
	return ""
}

func (r *rewriter) postRange(x *ast.RangeStmt, stack []ast.Node) {
	u := r.underlying(x.X)
	_, isMap := u.(*types.Map)
	_, isCh := u.(*types.Chan)
	if !isMap && !isCh {
		return
	}
	label := r.takeLabel(x, stack)
	xs := r.render(x.X)
	key, val := "", ""
	if x.Key != nil {
		key = r.render(x.Key)
	}
	if x.Value != nil {
		val = r.render(x.Value)
	}
	define := x.Tok == token.DEFINE
	var b strings.Builder
	if isCh {
		c := r.newTmp("c")
		ok := r.newTmp("ok")
		b.WriteString("{ " + c + " := " + xs + "; " + label + "for { ")
		switch {
		case key == "" || key == "_":
			b.WriteString("_, " + ok + " := " + c + ".Recv2(); ")
		case define:
			b.WriteString(key + ", " + ok + " := " + c + ".Recv2(); ")
		default:
			b.WriteString("var " + ok + " bool; " + key + ", " + ok + " = " + c + ".Recv2(); ")
		}
		b.WriteString("if !" + ok + " { break }; ")
	} else {
		m := r.newTmp("m")
		k := r.newTmp("k")
		ok := r.newTmp("ok")
		b.WriteString("{ " + m + " := " + xs + "; " + label + "for _, " + k + " := range vs_.MapKeys(" + m + ", " + r.site(x.Pos()) + ") { ")
		hasKey := key != "" && key != "_"
		hasVal := val != "" && val != "_"
		if hasKey {
			if define {
				b.WriteString(key + " := " + k + "; ")
			} else {
				b.WriteString(key + " = " + k + "; ")
			}
		}
		if hasVal {
			if define {
				b.WriteString(val + ", " + ok + " := " + m + "[" + k + "]; ")
			} else {
				b.WriteString("var " + ok + " bool; " + val + ", " + ok + " = " + m + "[" + k + "]; ")
			}
			b.WriteString("if !" + ok + " { continue }; ")
		} else {
			b.WriteString("if _, " + ok + " := " + m + "[" + k + "]; !" + ok + " { continue }; ")
		}
	}
	r.replace(x.Pos(), x.Body.Lbrace+1, b.String())
	r.replace(x.Body.Rbrace, x.Body.Rbrace+1, "}}")
}

func (r *rewriter) postSelect(x *ast.SelectStmt, stack []ast.Node) {
	label := r.takeLabel(x, stack)
	var pre strings.Builder
	var names []string
	hasDefault := false
	type clause struct {
		cc   *ast.CommClause
		head string
	}
	var cls []clause
	idx := 0
	for _, s := range x.Body.List {
		cc := s.(*ast.CommClause)
		if cc.Comm == nil {
			hasDefault = true
			cls = append(cls, clause{cc, "default:"})
			continue
		}
		k := r.newTmp("k")
		names = append(names, k)
		head := fmt.Sprintf("case %d:", idx)
		idx++
		switch c := cc.Comm.(type) {
		case *ast.SendStmt:
			pre.WriteString(k + " := vs_.SendCase(" + r.render(c.Chan) + ", " + r.render(c.Value) + "); ")
		case *ast.ExprStmt:
			u := unparen(c.X).(*ast.UnaryExpr)
			pre.WriteString(k + " := vs_.RecvCase(" + r.render(u.X) + "); ")
		case *ast.AssignStmt:
			u := unparen(c.Rhs[0]).(*ast.UnaryExpr)
			pre.WriteString(k + " := vs_.RecvCase(" + r.render(u.X) + "); ")
			var lhs []string
			for _, l := range c.Lhs {
				lhs = append(lhs, r.render(l))
			}
			tok := " = "
			if c.Tok == token.DEFINE {
				tok = " := "
			}
			if len(lhs) == 1 {
				head += " " + lhs[0] + tok + k + ".Val;"
			} else {
				head += " " + lhs[0] + ", " + lhs[1] + tok + k + ".Val, " + k + ".Ok;"
			}
		}
		cls = append(cls, clause{cc, head})
	}
	for _, c := range cls {
		r.replace(c.cc.Pos(), c.cc.Colon+1, c.head)
	}
	hd := "false"
	if hasDefault {
		hd = "true"
	}
	args := ""
	if len(names) > 0 {
		args = ", " + strings.Join(names, ", ")
	}
	r.replace(x.Pos(), x.Body.Lbrace+1, "{ "+pre.String()+label+"switch vs_.Select("+r.site(x.Pos())+", "+hd+args+") {")
	closing := "}}"
	if !hasDefault {
		// keeps the statement terminating when every case of the select is (a select is, a switch without default is not)
		closing = "default: panic(\"vs: select without default returned no case\") }}"
	}
	r.replace(x.Body.Rbrace, x.Body.Rbrace+1, closing)
}

func (r *rewriter) output(f *ast.File) string {
	// import of the scheduler shim on the line of the package clause
	r.owner = f
	uses := false
	for _, e := range r.edits {
		if strings.Contains(e.text, "vs_.") {
			uses = true
		}
	}
	if r.conc && uses {
		r.insert(f.Name.End(), `; import vs_ "verif/harness/vs"`)
	}
	return r.renderOff(0, len(r.src))
}

type pkgSpec struct {
	path    string
	conc    bool
	imports map[string]string
	hooks   []string // extra files added to the package
}

func main() {
	var (
		outDir   = flag.String("out", "", "scratch directory for generated files")
		harness  = flag.String("harness", "/verif/harness", "harness module directory")
		hooksDir = flag.String("hooks", "/verif/hooks", "directory of //go:build verif accessor files")
		plain    = flag.Bool("plain", false, "only add hooks and the vos shim, no concurrency rewriting of service")
		extra    = flag.String("extra", "", "comma-separated import paths of additional packages to rewrite like service (idiom corpus)")
		only     = flag.Bool("only-extra", false, "rewrite only the -extra packages")
	)
	flag.Parse()
	if *outDir == "" {
		fmt.Fprintln(os.Stderr, "vgen: -out required")
		os.Exit(2)
	}
	const base = "github.com/cuteLittleDevil/go-jt808/"
	specs := []pkgSpec{
		{path: base + "service", conc: !*plain, imports: map[string]string{
			"net": "verif/harness/vnet", "time": "verif/harness/vtime", "sync": "verif/harness/vsync", "sync/atomic": "verif/harness/vatomic"}},
		{path: base + "attachment", conc: false, imports: map[string]string{"os": "verif/harness/vos"}},
	}
	if *plain {
		specs[0].imports = map[string]string{}
	}
	if *only {
		specs = nil
	}
	for _, e := range strings.Split(*extra, ",") {
		if e != "" {
			specs = append(specs, pkgSpec{path: e, conc: true, imports: map[string]string{
				"net": "verif/harness/vnet", "time": "verif/harness/vtime", "sync": "verif/harness/vsync", "sync/atomic": "verif/harness/vatomic"}})
		}
	}
	cfg := &packages.Config{
		Mode: packages.NeedName | packages.NeedFiles | packages.NeedCompiledGoFiles | packages.NeedSyntax |
			packages.NeedTypes | packages.NeedTypesInfo | packages.NeedImports | packages.NeedDeps,
		Dir:        *harness,
		Env:        append(os.Environ(), "GOFLAGS="+goflags(), "GOPROXY=off", "GOSUMDB=off", "GOTOOLCHAIN=local"),
		BuildFlags: []string{"-tags=verif"},
	}
	var pats []string
	for _, s := range specs {
		pats = append(pats, s.path)
	}
	pkgs, err := packages.Load(cfg, pats...)
	if err != nil {
		fmt.Fprintln(os.Stderr, "vgen: load:", err)
		os.Exit(2)
	}
	overlay := map[string]string{}
	bad := false
	for _, p := range pkgs {
		var spec *pkgSpec
		for i := range specs {
			if specs[i].path == p.PkgPath {
				spec = &specs[i]
			}
		}
		if spec == nil {
			continue
		}
		if len(p.Errors) > 0 {
			for _, e := range p.Errors {
				fmt.Fprintln(os.Stderr, "vgen: package error:", e)
			}
			bad = true
			continue
		}
		sub := filepath.Join(*outDir, filepath.Base(p.PkgPath))
		if err := os.MkdirAll(sub, 0o755); err != nil {
			fmt.Fprintln(os.Stderr, err)
			os.Exit(2)
		}
		var pkgDir string
		for i, f := range p.Syntax {
			fname := p.CompiledGoFiles[i]
			pkgDir = filepath.Dir(fname)
			src, err := os.ReadFile(fname)
			if err != nil {
				fmt.Fprintln(os.Stderr, err)
				os.Exit(2)
			}
			r := &rewriter{fset: p.Fset, tf: p.Fset.File(f.Pos()), src: src, info: p.TypesInfo,
				conc: spec.conc, imports: spec.imports, fname: fname}
			r.run(f)
			out := r.output(f)
			if len(r.errs) > 0 {
				for _, e := range r.errs {
					fmt.Fprintln(os.Stderr, "INSTRUMENTATION-UNSUPPORTED:", e)
				}
				bad = true
				continue
			}
			if out == string(src) {
				continue
			}
			dst := filepath.Join(sub, filepath.Base(fname))
			if err := os.WriteFile(dst, []byte(out), 0o644); err != nil {
				fmt.Fprintln(os.Stderr, err)
				os.Exit(2)
			}
			overlay[fname] = dst
		}
		// accessor files: /verif/hooks/<pkg>_*.go are added to the package
		matches, _ := filepath.Glob(filepath.Join(*hooksDir, filepath.Base(p.PkgPath)+"_*.go"))
		for _, h := range matches {
			if *plain && strings.HasSuffix(h, "_inst.go") {
				continue
			}
			overlay[filepath.Join(pkgDir, "zz_verif_"+filepath.Base(h))] = h
		}
	}
	if bad {
		os.Exit(2)
	}
	js, _ := json.MarshalIndent(map[string]any{"Replace": overlay}, "", " ")
	if err := os.WriteFile(filepath.Join(*outDir, "overlay.json"), js, 0o644); err != nil {
		fmt.Fprintln(os.Stderr, err)
		os.Exit(2)
	}
}

// goflags keeps a -modfile already present in GOFLAGS (seeded-change testing against another checkout).
func goflags() string {
	f := "-mod=mod"
	for _, w := range strings.Fields(os.Getenv("GOFLAGS")) {
		if strings.HasPrefix(w, "-modfile=") {
			f += " " + w
		}
	}
	return f
}
