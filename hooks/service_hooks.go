//go:build verif

package service

import (
	"fmt"
	"sort"
	"strings"
	"time"
)

// Accessors for the verification harness (added to the build by overlay under
// tag verif; nothing in the repository refers to them).

// VerifParser drives the connection's frame extractor / sub-package
// reassembler with exact read-sized chunks.
type VerifParser struct{ p *packageParse }

func VerifNewParser() *VerifParser { return &VerifParser{p: newPackageParse()} }

// Parse feeds one read and returns the messages the reader would handle.
func (v *VerifParser) Parse(data []byte) ([]*Message, error) { return v.p.parse(data) }

// Pending returns the number of buffered bytes and of open transfers.
func (v *VerifParser) Pending() (history int, transfers int) {
	return len(v.p.historyData), len(v.p.subcontractingRecord)
}

// State renders the reassembler state canonically: per open transfer its slot
// occupancy and its age / idle time relative to now; plus the buffered bytes.
func (v *VerifParser) State(now time.Time) string {
	var ids []int
	for id := range v.p.subcontractingRecord {
		ids = append(ids, int(id))
	}
	sort.Ints(ids)
	var b strings.Builder
	fmt.Fprintf(&b, "h=%x;", v.p.historyData)
	for _, id := range ids {
		fmt.Fprintf(&b, "%04x:", id)
		for _, s := range v.p.subcontractingRecord[uint16(id)] {
			if len(s) == 0 {
				b.WriteByte('.')
			} else {
				b.WriteByte('#')
			}
		}
		if t, ok := v.p.timeoutRecord[uint16(id)]; ok {
			fmt.Fprintf(&b, "@%d/%d", now.Sub(t.createTime)/time.Millisecond, now.Sub(t.updateTime)/time.Millisecond)
		}
		b.WriteByte(';')
	}
	return b.String()
}

// VerifComplete reports whether msg is a complete message (not a lone sub-package).
func VerifComplete(m *Message) bool { return m.hasComplete() }
