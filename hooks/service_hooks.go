//go:build verif

package service

// Accessors for the verification harness (added to the build by overlay under
// tag verif; nothing in the repository refers to them).

// VerifParser drives the connection's frame extractor / sub-package
// reassembler with exact read-sized chunks.
type VerifParser struct{ p *packageParse }

func VerifNewParser() *VerifParser { return &VerifParser{p: newPackageParse()} }

// Parse feeds one read and returns the messages the reader would handle.
func (v *VerifParser) Parse(data []byte) ([]*Message, error) { return v.p.parse(data) }

// Pending returns the number of buffered bytes and of open transfers.
func (v *VerifParser) Pending() (history int, transfers int) {
	return len(v.p.historyData), len(v.p.subcontractingRecord)
}

// Complete reports whether msg is a complete message (not a lone sub-package).
func VerifComplete(m *Message) bool { return m.hasComplete() }
