//go:build verif

package service

import (
	"fmt"
	"hash/fnv"
	"reflect"
	"sort"
	"strings"
	"time"
	"unsafe"
)

// Accessors for the verification harness (added to the build by overlay under
// tag verif; nothing in the repository refers to them). They depend on three
// names only - packageParse, newPackageParse and parse - and read the parser's
// private state by reflection, so that renaming or regrouping its fields does
// not break the harness build.

// VerifParser drives the connection's frame extractor / sub-package
// reassembler with exact read-sized chunks.
type VerifParser struct{ p *packageParse }

func VerifNewParser() *VerifParser { return &VerifParser{p: newPackageParse()} }

// Parse feeds one read and returns the messages the reader would handle.
func (v *VerifParser) Parse(data []byte) ([]*Message, error) { return v.p.parse(data) }

// Pending returns the number of buffered bytes (all byte-slice fields of the
// parser) and of open transfers (entries of its largest map).
func (v *VerifParser) Pending() (history int, transfers int) {
	s := reflect.ValueOf(v.p).Elem()
	for i := 0; i < s.NumField(); i++ {
		f := s.Field(i)
		switch {
		case f.Kind() == reflect.Slice && f.Type().Elem().Kind() == reflect.Uint8:
			history += f.Len()
		case f.Kind() == reflect.Map:
			if f.Len() > transfers {
				transfers = f.Len()
			}
		}
	}
	return history, transfers
}

// State renders the parser's whole private state canonically: maps sorted by
// key, byte slices as length + hash (top-level buffers in full), instants as
// age relative to now in milliseconds.
func (v *VerifParser) State(now time.Time) string {
	var b strings.Builder
	verifDump(&b, reflect.ValueOf(v.p).Elem(), now, 0)
	return b.String()
}

var verifTimeType = reflect.TypeOf(time.Time{})

func verifDump(b *strings.Builder, v reflect.Value, now time.Time, depth int) {
	if depth > 6 {
		b.WriteString("...")
		return
	}
	if v.CanAddr() && !v.CanInterface() { // unexported field: re-open it for reading
		v = reflect.NewAt(v.Type(), unsafe.Pointer(v.UnsafeAddr())).Elem()
	}
	if v.Type() == verifTimeType {
		t := v.Interface().(time.Time)
		if t.IsZero() {
			b.WriteString("t0")
		} else {
			fmt.Fprintf(b, "@%d", now.Sub(t)/time.Millisecond)
		}
		return
	}
	switch v.Kind() {
	case reflect.Ptr, reflect.Interface:
		if v.IsNil() {
			b.WriteString("nil")
			return
		}
		verifDump(b, v.Elem(), now, depth+1)
	case reflect.Struct:
		b.WriteByte('{')
		for i := 0; i < v.NumField(); i++ {
			verifDump(b, v.Field(i), now, depth+1)
			b.WriteByte(';')
		}
		b.WriteByte('}')
	case reflect.Map:
		keys := v.MapKeys()
		sort.Slice(keys, func(i, j int) bool { return fmt.Sprint(keys[i]) < fmt.Sprint(keys[j]) })
		b.WriteByte('[')
		for _, k := range keys {
			fmt.Fprintf(b, "%v:", k)
			e := v.MapIndex(k)
			if e.Kind() != reflect.Ptr && e.Kind() != reflect.Interface && e.Kind() != reflect.Slice && e.Kind() != reflect.Map {
				c := reflect.New(e.Type()).Elem() // map elements are not addressable: copy
				c.Set(e)
				e = c
			}
			verifDump(b, e, now, depth+1)
			b.WriteByte(',')
		}
		b.WriteByte(']')
	case reflect.Slice, reflect.Array:
		if v.Type().Elem().Kind() == reflect.Uint8 {
			n := v.Len()
			if n == 0 {
				b.WriteByte('.')
				return
			}
			h := fnv.New64a()
			if v.Kind() == reflect.Slice {
				h.Write(v.Bytes())
			} else {
				for i := 0; i < n; i++ {
					h.Write([]byte{byte(v.Index(i).Uint())})
				}
			}
			fmt.Fprintf(b, "#%d/%x", n, h.Sum64()&0xffffffff)
			return
		}
		b.WriteByte('(')
		for i := 0; i < v.Len(); i++ {
			verifDump(b, v.Index(i), now, depth+1)
			b.WriteByte(' ')
		}
		b.WriteByte(')')
	case reflect.Func, reflect.Chan, reflect.UnsafePointer:
		b.WriteString("-")
	default:
		if v.CanInterface() {
			fmt.Fprintf(b, "%v", v.Interface())
		} else {
			fmt.Fprintf(b, "%v", v)
		}
	}
}

// VerifComplete reports whether msg is a complete message (not a lone sub-package).
func VerifComplete(m *Message) bool { return m.hasComplete() }
