//go:build verif

package attachment

import (
	"net"

	"github.com/cuteLittleDevil/go-jt808/shared/consts"
)

// Accessors for the verification harness (added to the build by overlay under
// tag verif; nothing in the repository refers to them).

// VerifRunConnection runs one attachment session on conn exactly as
// GoJT808.Run does for an accepted connection.
func VerifRunConnection(conn net.Conn, as consts.ActiveSafetyType, custom func() DataHandler, fe FileEventer) {
	newConnection(conn, as, custom, fe).run()
}

// VerifNewFileEvent returns the default file handler.
func VerifNewFileEvent() FileEventer { return newFileEvent() }
