#!/bin/bash
# trymutant.sh <patch.diff> <Cxx> [<Cyy> ...]
# Applies a seeded change to /repo, checks that it builds and that the baseline
# suite still passes, runs the named checks (quick tier), then undoes the change.
# Prints one line per check: DETECTED / MISSED / BROKEN. Never leaves /repo dirty.
set -u
patch="$1"; shift
ROOT=$(cd "$(dirname "$0")/.." && pwd)
cd /repo || exit 2
if [ -n "$(git status --porcelain)" ]; then echo "trymutant: /repo is not clean"; exit 2; fi
git apply "$patch" || { echo "trymutant: patch does not apply"; exit 2; }
trap 'git -C /repo checkout -- . ; git -C /repo clean -fdq' EXIT
if ! "$ROOT/bin/baseline.sh" > /tmp/trymutant-base.$$ 2>&1; then echo "BASELINE-FAILS (not a valid seeded change)"; tail -5 /tmp/trymutant-base.$$; rm -f /tmp/trymutant-base.$$; exit 3; fi
rm -f /tmp/trymutant-base.$$
for c in "$@"; do
  out=$("$ROOT/bin/vcheck" "$c" --tier "${TIER:-quick}" 2>&1); rc=$?
  sigs=$(echo "$out" | grep -a "signature:" | sed 's/^ *signature: //' | head -4 | tr '\n' '|')
  case $rc in
    1) echo "$c DETECTED  $sigs";;
    0) echo "$c MISSED";;
    *) echo "$c BROKEN rc=$rc: $(echo "$out" | tail -3 | tr '\n' ' ' | cut -c1-300)";;
  esac
done
