#!/bin/bash
# seeded_regress.sh [name-prefix]: for every kept seeded change, apply it to /repo, run the checks its meta.json
# names as detectors (quick tier), expect a VIOLATION from each, undo the change. Never leaves /repo dirty.
cd "$(dirname "$0")/.."
fail=0
for d in seeded/${1:-}*/; do
  n=$(basename $d)
  checks=$(python3 -c "import json;print(' '.join(json.load(open('$d/meta.json'))['detected_by']))")
  res=$(bin/trymutant.sh "$PWD/$d/patch.diff" $checks 2>&1 | awk '{print $1":"$2}' | tr '\n' ' ')
  echo "$n -> $res"
  case "$res" in *MISSED*|*BROKEN*|*BASELINE*|*trymutant*) fail=1;; esac
done
git checkout -q evidence 2>/dev/null
exit $fail
