#!/bin/bash
# seeded_regress.sh [name-prefix]: for every kept seeded change, apply it to a scratch worktree of /repo's HEAD, run
# the checks its meta.json names as detectors (quick tier) against that worktree (bin/trymutant_wt.sh), expect a
# VIOLATION from each, undo the change. /repo's working tree and /verif/evidence are never touched.
# BASELINE=1 also re-runs the repository's own suite with each change (slow).
cd "$(dirname "$0")/.."
wt=$(mktemp -d /tmp/verif-seedwt-XXXXXX); rmdir "$wt"
git -C /repo worktree add -q --detach "$wt" HEAD || exit 2
trap 'git -C /repo worktree remove --force "$wt"; git -C /repo worktree prune' EXIT
fail=0
for d in seeded/${1:-}*/; do
  [ -f "$d/meta.json" ] || continue
  n=$(basename $d)
  checks=$(python3 -c "import json;print(' '.join(json.load(open('$d/meta.json'))['detected_by']))")
  git -C "$wt" apply "$PWD/$d/patch.diff" || { echo "$n -> patch does not apply"; fail=1; continue; }
  full=$(NO_BASELINE=$([ -z "$BASELINE" ] && echo 1) MAXSIGS=40 bin/trymutant_wt.sh "$wt" $checks 2>&1)
  [ -n "$SIGLOG" ] && echo "$full" | sed "s/^/$n /" >> "$SIGLOG"
  res=$(echo "$full" | awk '{print $1":"$2}' | tr '\n' ' ')
  git -C "$wt" checkout -q -- . ; git -C "$wt" clean -fdq
  echo "$n -> $res"
  case "$res" in *MISSED*|*BROKEN*|*BASELINE*|*trymutant*) fail=1;; esac
done
exit $fail
