#!/bin/bash
# Builds the framework from files on disk only and warms the Go build cache
# (plain and -race variants of the instrumented harness).
export GOFLAGS=-mod=mod GOPROXY=off GOSUMDB=off GOTOOLCHAIN=local
set -e
ROOT=$(cd "$(dirname "$0")/.." && pwd)
scratch=$(mktemp -d /tmp/verif-setup-XXXXXX)
trap 'rm -rf "$scratch"' EXIT
( cd "$ROOT/tools/vgen" && go build -o "$scratch/vgen" . )
mkdir -p "$scratch/gen"
"$scratch/vgen" -harness "$ROOT/harness" -hooks "$ROOT/hooks" -out "$scratch/gen"
( cd "$ROOT/harness" && go build -overlay "$scratch/gen/overlay.json" -tags verif -o "$scratch/vcheck.bin" ./cmd/vcheck )
( cd "$ROOT/harness" && go build -race -overlay "$scratch/gen/overlay.json" -tags verif -o "$scratch/vcheck-race.bin" ./cmd/vcheck )
echo "setup ok"
