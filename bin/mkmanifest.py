#!/usr/bin/env python3
# Regenerates MANIFEST.json from the table below (properties.jsonl is never touched).
import json
props=[json.loads(l) for l in open('/verif/properties.jsonl')]
E2="bounded exhaustive enumeration of an input family on the real code against a reference model"
E1="stateless model checking of the real service package: all schedules within a deviation bound under a controlled scheduler"
claimed={
 "C01": dict(level="exploration", engine="venum", design="7 C01", technique=E2,
   text="Every member of a finite family of (source header, reply ID, platform serial, body) tuples is framed by Header.Encode and decoded by JTMessage.Decode and by an independent reference decoder; fields and the delimiter/escape discipline are compared. Exhaustive over the stated family (all bodies over the six special bytes up to length 5, boundary-length patterns with checksums steered to 0x7E/0x7D).",
   note="Trusts the reference codec harness/ref/frame.go. Bodies outside the family are not covered."),
 "C02": dict(level="exploration", engine="venum", design="7 C02", technique=E2,
   text="Library verdict and decoded fields are compared with a reference validator on every string 7E m 7E over {7D,01,02,00} up to length 13 (15 thorough), a structured header/length/checksum/escape product, and every single-byte/bit corruption, truncation and insertion of valid frames.",
   note="Trusts harness/ref/frame.go; encryption compared as bit 10 only (documented meaning)."),
 "C03": dict(level="exploration", engine="venum", design="7 C03", technique=E2.replace("against a reference model","with totality / placement-independence / history-independence oracles"),
   text="For ~80 subjects (every exported message type x header version x dialect, 0x0200 with the five vendor parsers, frame and RTP decoders): all short byte strings over small alphabets, every truncation point of every seed body followed by all short suffixes, every single-byte substitution and structural double substitution, extensions, and all ordered pairs/triples of bodies on one receiver. Each case must not panic, must give the same outcome on an exact-capacity slice and on two differently poisoned larger buffers, must render with String(), and a reused receiver must equal a fresh one.",
   note="Seeds are the valid bodies in the repository's own test files plus harness samples. Finite alphabets; a per-worker watchdog turns a non-terminating parse into a violation."),
 "C04": dict(level="model_checking", engine="venum", design="7 C04", technique="explicit enumeration of all read partitions of frame streams against the real frame extractor (and the real reader on a virtual socket), compared with a reference deframer",
   text="All sequences of 1..2 (thorough 3) frames from a 14-frame menu are cut into reads in every way within the bounds (unsegmented, frame by frame, byte by byte, every 1-cut, every 2-cut of streams <= 250 bytes, structural 2-cuts beyond) and played against the real extractor from one re-used 1023-byte buffer; every 1-cut also through the real connection.reader. Count, order, IDs, serials, phones, bodies and raw frames must equal the reference deframer's, each message must appear in the read that carries its closing delimiter, and stay intact afterwards.",
   note="Extractor reached through the VerifParser accessor (tag verif, overlay). Segmentations beyond the stated cut families are not enumerated."),
 "C05": dict(level="model_checking", engine="venum", design="7 C05", technique="breadth-first explicit-state search over event histories on the real reassembler, successor = replay on a fresh instance + one event, reference reassembler as oracle",
   text="Every history up to depth 5 (thorough 6) over packets of two transfers, ordinary messages, impossible package numbers, a foreign packet and an N=1 transfer is applied to the real packageParse (one frame per read, coalesced, every 1-cut for depth <= 3) and, for depth <= 3, to the real connection; a reference reassembler predicts exactly which read delivers which complete message with which body. N=255 transfers in forward, reverse, interleaved and duplicated order.",
   note="Histories repeating packet 1 of an active transfer are outside the property's precondition and skipped."),
 "C06": dict(level="model_checking", engine="vsched", design="7 C06", technique=E1+" plus exhaustive message histories up to depth 2/3",
   text="The real server (service.New/Run over a virtual listener) is driven with every history of 1..2 (thorough 3) terminal messages over the default IDs/versions/serials and a 65540-message wrap run under the run-to-block schedule, and with representative one- and two-connection histories under all schedules within 2 (thorough 3) deviations; replies, their order, platform serials and callback counts/order are compared with a reference reply table.",
   note="Scheduling points are channel/socket/once/sleep operations; the socket is the vnet byte-stream model; reply table harness/ref/reply.go."),
 "C07": dict(level="exploration", engine="venum", design="7 C07", technique=E2,
   text="For ~35 two-way message types (all versions where layouts differ, five dialects) a generator enumerates in-domain values (full products of boundary menus where <= 10^6, otherwise all pairs plus single sweeps; lists of 0..3 (thorough 4, some 255) elements; every terminal parameter ID and all pairs); each value must satisfy Parse(Encode(v)) == v, Encode(Parse(Encode(v))) == Encode(v) and Encode(v) == an independent reference encoder. Helpers: BCD phone/time conversions on every byte value per position and position pair, UTF82GBK(GBK2UTF8(x)) on every GBK code point, String2FillingBytes for all (len,size) <= 40.",
   note="Reference encoders harness/checks/c07_ref.go + harness/ref/bodies07.go; no independent reference for the HLJ/HN/SC alarm-sign widths (round-trip oracles only there). Non-ASCII text only in fields the library itself converts to GBK. Known findings: parameters 0x18/0x19/0x21 (golden-pinned), 2011 registration with long plate, two GBK code points of x/text."),
 "C08": dict(level="exploration", engine="venum", design="7 C08", technique=E2,
   text="A reference reader built from the standard's tables as data (base block, 32 alarm bits, single-bit status flags, extended-vehicle/IO bits, a dozen item layouts; bit -> Go field bound by reflection) is compared with the library on: alarm and status words with 0, all, every single bit, every pair, every word with <=3 (thorough 4) bits set or cleared, all 2^16 values of each half, all alarm x status bit pairs, and in the thorough tier every one of the 2^32 alarm and 2^32 status words; full products of scalar boundary menus; BCD digit sweeps; every item ID x every length 0..max+2 x content menus, full 16-bit/8-bit value ranges of the small items; all sequences of 1..3 (thorough 4) items from a 46-item menu incl. unknown and duplicate IDs; each through 0x0200, every slot of 0x0704 batches and 0x0801.",
   note="Reference ref/location08.go; status bits 8-9 (two-bit load field), calendar validity and tyre-pressure marker semantics are not claimed. Known findings: item 0x11 area ID (golden-pinned), item 0x06 signedness."),
 "C09": dict(level="model_checking", engine="vsched", design="7 C09", technique=E1,
   text="For 24 scenarios (8 histories x 3 delivery modes) all schedules of reader, writer and terminal within 2 (thorough 3) deviations are executed on the real connection code; every Message kept from a read callback is compared with its snapshot at every later callback and at quiescence, replies and reassembled bodies with the reference computed from the snapshots.",
   note="Same trusted base as C06."),
 "C10": dict(level="model_checking", engine="vsched", design="7 C10", technique=E1+" over a hostile-input menu with disconnect/reset injection; exhaustive scripted sessions for the attachment connection",
   text="A well-behaved session, a hostile client and a later third client run against the real JT808 server with handlers that parse and render every body; the hostile client plays every piece of a ~900-piece menu (lying package fields, every supported ID with empty/short/truncated/corrupted/extended bodies, C03's boundary bodies, framing noise) with close/reset at every chunk boundary under all schedules with <=1 (thorough 2) deviation, and every ordered pair of a sub-menu. The attachment connection loop is run on every prefix (EOF/reset, also mid-chunk) of well-formed sessions of all five dialects and on adversarial control frames/chunk headers, with the default and a custom file handler. No goroutine may panic, the victim must get exactly its reference replies, the later client must be served.",
   note="Memory exhaustion by an endless delimiter-free stream is not claimed (resource bound, not a reachable-state property)."),
 "C11": dict(level="model_checking", engine="vsched", design="7 C11", technique=E1+"; each execution's join/leave/route history checked for linearizability with porcupine",
   text="10 (thorough 12) registry skeletons (duplicate-key connect after/racing the owner's join, close then reconnect, close racing a duplicate, two keys, commands racing / following a leave, absent key) are executed under all schedules within 2 (thorough 3) deviations on the real sessionManager and connection code; the call/return history of join, leave and command routing is checked against a sequential key->connection map with porcupine, refused sockets must be closed, callbacks are counted and the owner's traffic must stay answered.",
   note="Operation intervals are derived from callbacks and enlarged where the call instant is not observable (sound). Commands whose caller never returns belong to C13."),
 "C12": dict(level="model_checking", engine="vsched", design="7 C12", technique=E1,
   text="1..2 (thorough 3) concurrent SendActiveMessage callers, one or two scripted terminals with 7 response behaviours (in order, reverse, only the second, duplicated, unknown serial, never, late), heartbeat/location noise and an absent key; every schedule within 2 (thorough 3) deviations, timers being scheduler events. Each caller must get exactly the response echoing its own frame's serial or a timeout; its frame must be on its terminal's socket exactly once with a fresh serial; noise must still be answered.",
   note="No wall clock: a timeout is admissible whenever a timer may fire; in executions without early timers an answered command must see its answer. Serial wrap between outstanding commands is not reachable within the bounds."),
 "C13": dict(level="model_checking", engine="vsched", design="7 C13", technique=E1+" with disconnect/reset/write-failure injection at every script point",
   text="The terminal closes or resets before join, after join, after k commands were written, after answering all or some, or never answers, with k=0..2 (thorough 0..5) queued/outstanding commands and write failures as a socket answer; every schedule within 2 (thorough 3) deviations. No goroutine may panic and at quiescence every caller must have returned.",
   note="'Within its timeout plus slack' is decided as eventual return in every maximal execution with timers as events."),
 "C19": dict(level="exploration", engine="venum", design="7 C19", technique=E2.replace("against a reference model","with a path-confinement oracle on a logging file-system shim"),
   text="Complete upload sessions with the default file handler are run for 4 400+ announced names (all strings of length 1..6 over {a . /}, leading '/', embedded NUL, '../' up to the wire limit, names resolving to existing files) x 3 phones x 2 segmentations; every create/write target the handler asks for is logged by the vos shim (and only carried out inside a virtual sandbox) and must lie under <root>/<phone>/.",
   note="os calls of attachment/file_event.go are routed to harness/vos by vgen's import rewriting; lexical path resolution (no symlinks)."),
 "C18": dict(level="model_checking", engine="vsched", design="7 C18", technique=E1+", every explored schedule executed under the Go race runtime with only the program's own happens-before edges visible",
   text="The scenario families of C06/C09/C11/C12/C13 are explored in the -race build with 2 (thorough 3) deviations; token hand-offs are hidden from the race runtime (RaceDisable) and exactly the Go-memory-model edges of channel operations, sync.Once and go statements are re-created, so each schedule is checked for happens-before races although threads never overlap physically. An idiom corpus (race-free idioms silent, seeded races reported) runs first as a self-test.",
   note="The race runtime can miss a race (4 shadow cells, report de-duplication, incidental sync.Pool edges inside fmt), never invent one. Reports without a repository frame, or raised by a runtime helper called from a shim, abort the check as broken."),
 "C14": dict(level="model_checking", engine="venum", design="7 C14", technique="breadth-first explicit-state search with canonical-state deduplication over packet/time-advance histories on the real reassembler under a virtual clock",
   text="Histories up to depth 6 (thorough 8) over packets of two transfers, a heartbeat and five time advances, plus every non-empty missing set for N=2..6 x idle times x resupply patterns and N=255 families, run on the real packageParse with a virtual clock; a reference model predicts every 0x8003 (first packet's serial, exactly the missing numbers ascending, at most once per 5 s), every completion and every expiry; representative histories run through the real connection (frame on the socket once, next platform serial).",
   note="Exactly 5 s / 60 s is not exercised (boundary side unspecified). Virtual clock only."),
 "C15": dict(level="model_checking", engine="venum", design="7 C15", technique="exhaustive enumeration of scripted upload sessions (file sets x chunk orders x resends x dialects x read partitions) against the real attachment connection loop",
   text="The real connection.run is driven over scripted connections for file sets of 1..2 (thorough 3) files, sizes 1..6 (+ one 160 KiB file), chunk sizes 1..3, all chunk orders, a resent chunk at every position, marker-bearing names and alarm IDs, five dialects, and every stream cut one unit per read, coalesced, at every 1-cut and at structural 2-cuts. FileEventer snapshots must report complete only when every byte arrived, with byte-identical content; every control frame gets exactly one prescribed reply with serials 0,1,2...",
   note="Reference layouts harness/ref/attach.go; connection loop reached through the VerifRunConnection accessor (tag verif)."),
 "C16": dict(level="model_checking", engine="venum", design="7 C16", technique="exhaustive enumeration of received-chunk sets against a reference interval complement; wire form decoded by reference and by the library's own parser; socket-level replay",
   text="Package.StatisticalMissSegments is evaluated on every set of pairwise disjoint received chunks for sizes 1..10 (thorough 12) plus 255-gap / adjacent / edge families; T0x1212.ReplyBody->P0x9212.Encode is decoded by the reference and by P0x9212.Parse; for sizes <= 5 every chunk set in every order is played over the real connection: first report = exactly the gaps, after resending them the second report = complete.",
   note="More than 255 gaps cannot be expressed on the wire and is outside the property."),
 "C17": dict(level="exploration", engine="venum", design="7 C17", technique=E2,
   text="Packets from a reference encoder (all 16 data types x 16 sub-package marks x PT/M/attr menus x payload lengths around 0, 950 and 65535), all sequences of 1..2 (thorough 3) packets from a 29-packet menu and every prefix of them, plus arbitrary short strings, are decoded from the front with a fresh and with a reused Packet and compared field by field with a reference reader; truncations must be classified short/unqualified.",
   note="Trusts harness/ref/rtp.go (JT/T 1078 table 19)."),
 "C20": dict(level="exploration", engine="venum", design="7 C20", technique=E2+"; predicted replies additionally compared with what the real server writes in a 65537-frame conversation",
   text="For versions 2011/2013/2019, all 24 default commands and 1 000+ phones (every decimal string of length 1..3 (thorough 4), digit sweeps of full-length phones, one phone per template checksum value incl. 0x7D/0x7E) three consecutive simulator frames are decoded by the library and by the reference decoder (ID, phone modulo leading zeros, header layout, serial +1), their bodies parsed with the matching model type and re-encoded; custom bodies over the special-byte alphabet go through CreateCommandData; a terminal is carried through 65537 frames; ExpectedReply is compared with the reference reply for every reply-bearing command x version x all 65536 platform serials and with the real server's output in a 65537-frame conversation.",
   note="Reference reply table harness/ref/reply.go (itself compared with the real server by C06)."),
}
checks=[]
for p in props:
    i=p['id']
    if i in claimed:
        c=claimed[i]
        checks.append({
          "property_id":i,
          "quick_cmd":f"bin/vcheck {i} --tier quick",
          "thorough_cmd":f"bin/vcheck {i} --tier thorough",
          "evidence_file":f"/verif/evidence/{i}.json",
          "replay_cmd_template":f"bin/vcheck {i} --replay {{path}}",
          "engine":c['engine'],
          "level_claimed":{"category":c['level'],"text":c['text'],"design_ref":c['design']},
          "level_note":c['note'],
          "technique":c['technique'],
        })
na=[{"property_id":p['id'],"reason":"check under construction in this session; will be claimed once built (no technique limitation)"} for p in props if p['id'] not in claimed]
e1=[i for i,c in claimed.items() if c['engine']=="vsched"]
e2=[i for i,c in claimed.items() if c['engine']=="venum"]
m={
 "version":1,
 "setup_cmd":"bin/setup.sh",
 "hooks":{"guard":"verif","enable":"go build -tags verif -overlay <generated>: accessor files live in /verif/hooks and are added to the build by overlay; /repo contains no hook code","baseline_off_cmd":"/verif/bin/baseline.sh","source_commits":[],"add_only":True},
 "engines":[
  {"name":"vsched","path":"/verif/harness/vs","serves_properties":e1,"kind_free_text":"hand-written stateless model checker: line-preserving source rewriter (tools/vgen) + controlled scheduler and shims (vs, vnet, vtime, vsync), deviation-bounded DFS over all schedules of the real service package"},
  {"name":"venum","path":"/verif/harness/checks","serves_properties":e2,"kind_free_text":"bounded exhaustive enumeration of input / history families on the real code against Go reference models (harness/ref)"}],
 "checks":checks,
 "not_applicable":na,
 "notes":"see DESIGN.md"
}
json.dump(m,open('/verif/MANIFEST.json','w'),indent=1)
print("claimed:",sorted(claimed))
