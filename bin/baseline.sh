#!/bin/bash
# Runs the repository's own test suite (guard off: no build tag, no overlay).
export GOFLAGS=-mod=mod GOPROXY=off GOSUMDB=off GOTOOLCHAIN=local
rc=0
for m in . attachment protocol service shared terminal; do
  ( cd /repo/$m && go test -mod=mod -vet=off -count=1 -timeout 25m ./... ) || rc=1
done
exit $rc
