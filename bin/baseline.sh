#!/bin/bash
# Runs the repository's own test suite (guard off: no build tag, no overlay).
export GOFLAGS=-mod=mod GOPROXY=off GOSUMDB=off GOTOOLCHAIN=local
rc=0
R=${BASE_REPO:-/repo}   # BASE_REPO: another checkout (seeded-change testing)
for m in . attachment protocol service shared terminal; do
  out=$( cd $R/$m && go test -mod=mod -vet=off -count=1 -timeout 25m ./... 2>&1 ); r=$?
  echo "$out"
  # the root module holds no packages: `go test ./...` exits 1 with "no packages to test"
  if [ $r -ne 0 ] && ! echo "$out" | grep -q "no packages to test"; then rc=1; fi
done
exit $rc
