#!/bin/bash
# vgen_corpus.sh [-race]: rewriter fidelity test. Builds the idiom corpus natively and rewritten by vgen, runs the
# rewritten one under all schedules within 2 deviations, and requires identical output lines (and, with -race,
# no race report on any schedule).
export GOFLAGS=-mod=mod GOPROXY=off GOSUMDB=off GOTOOLCHAIN=local
ROOT=$(cd "$(dirname "$0")/.." && pwd)
scratch=$(mktemp -d /tmp/verif-corpus-XXXXXX) || exit 2
trap 'rm -rf "$scratch"' EXIT
( cd "$ROOT/tools/vgen" && go build -o "$scratch/vgen" . ) || exit 2
mkdir -p "$scratch/gen"
"$scratch/vgen" -harness "$ROOT/harness" -hooks "$ROOT/hooks" -out "$scratch/gen" -only-extra -extra verif/harness/corpus || { echo "CORPUS: vgen failed"; exit 2; }
( cd "$ROOT/harness" && go build -tags corpusnative -o "$scratch/native" ./cmd/corpus ) || exit 2
( cd "$ROOT/harness" && go build $1 -overlay "$scratch/gen/overlay.json" -o "$scratch/inst" ./cmd/corpus ) || { echo "CORPUS: rewritten corpus does not build"; exit 2; }
"$scratch/native" > "$scratch/native.out" || exit 2
GOMAXPROCS=1 GORACE="halt_on_error=0" "$scratch/inst" > "$scratch/inst.out" 2> "$scratch/inst.err"; rc=$?
grep -c "corpus ok" "$scratch/inst.err"
grep "CORPUS-FAIL" "$scratch/inst.err"
if ! diff "$scratch/native.out" "$scratch/inst.out"; then echo "CORPUS: native and rewritten outputs differ"; exit 1; fi
[ $rc -eq 0 ] || { echo "CORPUS: failures above"; tail -30 "$scratch/inst.err"; exit 1; }
echo "corpus: $(wc -l < "$scratch/native.out") programs, native == rewritten under all schedules within 2 deviations $1"
