#!/bin/bash
# trymutant_wt.sh <worktree-with-change-applied> <Cxx> [<Cyy> ...]
# Like trymutant.sh but never touches /repo: the checks are built against the given checkout (VERIF_REPO) and
# write their evidence and replays to a scratch directory (VERIF_OUT). Safe while other runs use /repo.
set -u
wt="$1"; shift
ROOT=$(cd "$(dirname "$0")/.." && pwd)
out=$(mktemp -d /tmp/verif-mutout-XXXXXX); trap 'rm -rf "$out"' EXIT
export VERIF_REPO="$wt" VERIF_OUT="$out"
if [ -z "${NO_BASELINE:-}" ]; then
  if ! BASE_REPO="$wt" "$ROOT/bin/baseline.sh" > "$out/base.log" 2>&1; then echo "BASELINE-FAILS (not a valid seeded change)"; grep -a -E "FAIL|panic" "$out/base.log" | head -5; exit 3; fi
  echo "baseline passes with the change"
fi
for c in "$@"; do
  o=$("$ROOT/bin/vcheck" "$c" --tier "${TIER:-quick}" 2>&1); rc=$?
  sigs=$(echo "$o" | grep -a "signature:" | sed 's/^ *signature: //' | head -${MAXSIGS:-4} | tr '\n' '|')
  case $rc in
    1) echo "$c DETECTED  $sigs";;
    0) echo "$c MISSED";;
    *) echo "$c BROKEN rc=$rc: $(echo "$o" | tail -3 | tr '\n' ' ' | cut -c1-300)";;
  esac
done
