#!/bin/bash
# runall.sh [quick|thorough]: runs every check on the current tree, one line each
tier=${1:-quick}
cd "$(dirname "$0")/.."
for i in 01 02 03 04 05 06 07 08 09 10 11 12 13 14 15 16 17 18 19 20; do
  out=$(bin/vcheck C$i --tier $tier 2>&1); rc=$?
  echo "rc=$rc $(echo "$out" | grep -a "^C$i tier" | tail -1)"
  if [ $rc -ne 0 ]; then echo "$out" | grep -a "VIOLATION\|BROKEN\|signature" | head -5; fi
done
