#!/bin/bash
# benign_regress.sh: applies every behaviour-preserving patch in /verif/benign to a scratch worktree of /repo's HEAD and
# runs the checks of the code it touches (quick tier) against that worktree; NO check may alarm or break.
# FAST=1 leaves C10 and C18 (the two slowest) out of the list for service patches.
cd "$(dirname "$0")/.."
wt=$(mktemp -d /tmp/verif-benignwt-XXXXXX); rmdir "$wt"
git -C /repo worktree add -q --detach "$wt" HEAD || exit 2
trap 'git -C /repo worktree remove --force "$wt"; git -C /repo worktree prune' EXIT
fail=0
for d in benign/${1:-}*.diff; do
  n=$(basename $d .diff)
  case $n in B8*|B11*|R-C15z|R-C16z|R-C19y|R-C15x) checks="C15 C16 C19 C10";; R-C16x) checks="C16 C15 C07 C03";; B12*|R-C02z|R-C01y|R-C02x) checks="C01 C02 C03 C04 C06 C20";;
    R-C03y|R-C08y) checks="C03 C08 C07";;
    R-C07z|R-C07x) checks="C07 C08 C03 C20 C02";; R-C17z) checks="C17 C03";; R-C20z|R-C20x) checks="C20";; *) checks="C04 C05 C06 C09 C10 C11 C12 C13 C14 C18"; [ -n "$FAST" ] && checks="C04 C05 C06 C09 C11 C12 C13 C14";; esac
  git -C "$wt" apply "$PWD/$d" || { echo "$n -> patch does not apply"; fail=1; continue; }
  res=$(NO_BASELINE=$([ -z "$BASELINE" ] && echo 1) bin/trymutant_wt.sh "$wt" $checks 2>&1 | awk '{print $1":"$2}' | tr '\n' ' ')
  git -C "$wt" checkout -q -- . ; git -C "$wt" clean -fdq
  echo "$n -> $res"
  case "$res" in *DETECTED*|*BROKEN*|*BASELINE*) fail=1;; esac
done
exit $fail
