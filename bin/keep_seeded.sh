#!/bin/bash
# keep_seeded.sh <name> <Cxx worktree id> <property> "<needs>" "<caught by>"
# copies a confirmed seeded change into /verif/seeded/<name>/ (patch.diff, demo/, NOTES.md, meta.json)
name="$1"; id="$2"; prop="$3"; needs="$4"; caught="$5"
out=/tmp/mut/$id-out; dst=/verif/seeded/$name
mkdir -p $dst && cp $out/PATCH.diff $dst/patch.diff && rm -rf $dst/demo && cp -r $out/demo $dst/demo 2>/dev/null
[ -f $out/RUN.txt ] && cp $out/RUN.txt $dst/demo/RUN.txt
[ -f $out/NOTES.md ] && cp $out/NOTES.md $dst/NOTES.md
rm -f $dst/demo/go.sum.bak; find $dst -name '*.test' -delete
python3 - "$dst" "$prop" "$needs" "$caught" "$id" <<'PY'
import json,sys
dst,prop,needs,caught,wid=sys.argv[1:6]
json.dump({"breaks_property":prop,"needs_to_manifest":needs,"origin":"fresh sub-agent given only the property text and a scratch worktree (/tmp/mut/%s)"%wid,
 "confirmed":["patch applies to /repo HEAD and builds","baseline suite passes with the patch (bin/baseline.sh via bin/trymutant.sh or trymutant_wt.sh)","demonstration fails with the patch and passes without it (bin/confirm_seeded.sh, clean worktree, git apply / git apply -R)"],
 "checks_run":"bin/trymutant.sh <patch> <checks> or bin/trymutant_wt.sh <worktree> <checks> (quick tier)","detected_by":caught.split(",") if caught else []},open(dst+"/meta.json","w"),indent=1,ensure_ascii=False)
PY
echo kept $name
