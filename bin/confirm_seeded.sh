#!/bin/bash
# confirm_seeded.sh <Cxx>: runs the sub-agent's demonstration in its scratch worktree with the change applied
# (must fail) and stashed (must pass); copies PATCH.diff, demo and notes to /verif/seeded/<Cxx>/ when both hold.
id="$1"; wt=/tmp/mut/$id; out=/tmp/mut/$id-out
run=$out/RUN.txt; [ -f "$run" ] || run=$out/demo/RUN.txt
[ -f "$run" ] || { echo "$id: no RUN.txt"; exit 2; }
grep -E '^(export |cd |go |cp |rm |sh |bash |\(|mkdir |GOFLAGS=)' "$run" > /tmp/confirm-run.$$.sh; run=/tmp/confirm-run.$$.sh
trap 'rm -f /tmp/confirm-run.$$.sh' EXIT
[ -s "$out/PATCH.diff" ] || { echo "$id: no PATCH.diff"; exit 2; }
# start from a pristine worktree (git stash is shared between worktrees: never use it here)
git -C $wt checkout -q -- . && git -C $wt clean -fdq
git -C $wt apply $out/PATCH.diff || { echo "$id: PATCH.diff does not apply to a clean worktree"; exit 2; }
with=$(bash "$run" 2>&1)
git -C $wt apply -R $out/PATCH.diff || exit 2
without=$(bash "$run" 2>&1)
git -C $wt apply $out/PATCH.diff
f1=$(echo "$with" | grep -a -c "FAIL"); f2=$(echo "$without" | grep -a -c "FAIL"); ok2=$(echo "$without" | grep -a -c -E "^ok|PASS")
echo "$id: with-change FAIL-lines=$f1 ; without-change FAIL-lines=$f2 ok-lines=$ok2"
if [ "$f1" -gt 0 ] && [ "$f2" -eq 0 ] && [ "$ok2" -gt 0 ]; then
  echo "$id: CONFIRMED"; exit 0
fi
echo "--- with:"; echo "$with" | tail -8; echo "--- without:"; echo "$without" | tail -8
exit 1
