#!/bin/bash
# regress_parallel.sh <outdir>: the seeded and the behaviour-preserving regressions, sharded by name prefix and run a few
# shards at a time (each shard has its own scratch worktree; /repo's working tree is never touched).
# Logs: <outdir>/seeded-<prefix>.log, <outdir>/benign-<prefix>.log
cd "$(dirname "$0")/.."
out="${1:-/tmp/regress}"; mkdir -p "$out"
printf "%s\n" C01 C02 C03 C04 C05 C06 C07 C08 C09 C10 C11 C12 C13 C14 C15 C16 C17 C18 C19 C20 |
  xargs -P "${SEEDED_PAR:-4}" -I{} sh -c "bin/seeded_regress.sh {} > $out/seeded-{}.log 2>&1" &
printf "%s\n" ${BENIGN_SHARDS:-B R-C0 R-C1 R-C2} |
  FAST=1 xargs -P "${BENIGN_PAR:-2}" -I{} sh -c "FAST=1 bin/benign_regress.sh {} > $out/benign-{}.log 2>&1" &
wait
grep -h -E "MISSED|BROKEN|does not apply" "$out"/seeded-*.log | sed 's/^/SEEDED NOT DETECTED: /'
grep -h -E "DETECTED|BROKEN|does not apply" "$out"/benign-*.log | sed 's/^/BENIGN ALARM: /'
echo "seeded: $(cat "$out"/seeded-*.log | grep -c -- '->') changes run; benign: $(cat "$out"/benign-*.log | grep -c -- '->') patches run"
